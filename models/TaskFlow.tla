------------------------------ MODULE TaskFlow ------------------------------
(* Sequential-task-flow semantics of the mock task runtime (harness/sched/vf_sched.cpp).            *)
(* N tasks are created in program order by a single submitter; task k may run once it is created    *)
(* and every earlier task j with a conflicting declared access (Ordered[j][k]) has finished.        *)
(* Commutative accesses do not order tasks.  Tasks are atomic.                                      *)
(* The constants are generated from the task graph RECORDED FROM THE IMPLEMENTATION for one driver  *)
(* tree; tools/tlc_crosscheck.py compares TLC's reachable state set and transition count with the   *)
(* set of abstract states (created, done) the explorer visited on the real code.                    *)
EXTENDS Naturals, FiniteSets
CONSTANTS N, Ordered, Conflict
VARIABLES created, done

Init == created = 0 /\ done = {}

Ready(k) == k \in 1..created /\ k \notin done /\ \A j \in 1..(k-1) : (<<j, k>> \in Ordered) => j \in done

Create == created < N /\ created' = created + 1 /\ UNCHANGED done
Run(k) == Ready(k) /\ done' = done \cup {k} /\ UNCHANGED created

Next == Create \/ \E k \in 1..N : Run(k)

Spec == Init /\ [][Next]_<<created, done>>

TypeOK == created \in 0..N /\ done \subseteq 1..created

(* Two tasks that can be enabled at the same time must not have conflicting footprints (Conflict is *)
(* computed from the byte-exact footprints traced on the implementation, minus the pairs that share *)
(* a commutative handle, which the runtime makes mutually exclusive).                               *)
NoUndeclaredConflict == \A a \in 1..N, b \in 1..N : (a < b /\ Ready(a) /\ Ready(b)) => <<a, b>> \notin Conflict

(* every execution terminates with all tasks done: no deadlock except the final state *)
Terminal == created = N /\ done = 1..N
=============================================================================
