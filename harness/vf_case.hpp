// One verification case = (input shape, configuration); builds the REAL tree, runs a REAL executor with the
// verification kernel and evaluates the oracles.  Used by all tree drivers.
#ifndef VF_CASE_HPP
#define VF_CASE_HPP

#include "spacial/tbfmortonspaceindex.hpp"
#include "spacial/tbfspacialconfiguration.hpp"
#include "core/tbfcellscontainer.hpp"
#include "core/tbfparticlescontainer.hpp"
#include "core/tbfparticlesorter.hpp"
#include "core/tbftree.hpp"
#include "core/tbftreetsm.hpp"
#include "algorithms/sequential/tbfalgorithm.hpp"
#include "algorithms/sequential/tbfalgorithmtsm.hpp"

#include "vf_ref.hpp"
#include "vf_kernel.hpp"

#include <memory>
#include <sstream>
#include <iostream>
#include <cfloat>
#include <cmath>

namespace vf {

struct Particle {
    Coord lat;                       // lattice coordinates, unit = leaf width / 4, range [0, 4*2^(h-1)]
    std::array<int,4> nudge{{0,0,0,0}};   // real coordinate moved by that many ulps (C06 motifs)
};

struct Spec {
    int dim = 3;
    int height = 3;
    std::array<double,4> centre{{0.5,0.5,0.5,0.5}};
    std::array<double,4> widths{{1,1,1,1}};
    std::vector<Particle> parts;       // all particles (single tree) or the targets (target/source mode)
    std::vector<Particle> srcParts;    // sources (target/source mode only)
    long blockSize = 1;                // >= 1, or -1 for automatic
    int envBlock = 0;                  // > 0: TBFMM_BLOCK_SIZE is set to it (with blockSize -1)
    bool oneGroupPerParent = false;
    long upperLevel = 2;

    std::string str() const {
        std::ostringstream o;
        o.precision(17);
        o << "dim=" << dim << " h=" << height << " box=[";
        for(int d = 0 ; d < dim ; ++d) o << (d?",":"") << centre[d];
        o << "|";
        for(int d = 0 ; d < dim ; ++d) o << (d?",":"") << widths[d];
        o << "] bs=" << blockSize << " env=" << envBlock << " ogpp=" << int(oneGroupPerParent) << " up=" << upperLevel << " parts=";
        auto dump = [&](const std::vector<Particle>& ps){
            for(size_t i = 0 ; i < ps.size() ; ++i){
                if(i) o << ";";
                for(int d = 0 ; d < dim ; ++d){ o << (d?",":"") << ps[i].lat[d]; if(ps[i].nudge[d]) o << (ps[i].nudge[d] > 0 ? "+" : "-") << "u" << std::abs(ps[i].nudge[d]); }
            }
        };
        dump(parts);
        if(srcParts.size()){ o << " src="; dump(srcParts); }
        return o.str();
    }
};

struct Violation { std::string key; std::string detail; };

struct Outcome {
    std::vector<Violation> violations;
    void add(const std::string& k, const std::string& d){
        for(const auto& v : violations) if(v.key == k) return;
        violations.push_back({k, d});
    }
    bool ok() const { return violations.empty(); }
};

template <class Real>
inline Real realNudge(Real v, int ulps){
    while(ulps > 0){ v = std::nextafter(v, std::numeric_limits<Real>::infinity()); --ulps; }
    while(ulps < 0){ v = std::nextafter(v, -std::numeric_limits<Real>::infinity()); ++ulps; }
    return v;
}

inline void setBlockEnv(const Spec& spec){
    if(spec.envBlock > 0) setenv("TBFMM_BLOCK_SIZE", std::to_string(spec.envBlock).c_str(), 1);
    else unsetenv("TBFMM_BLOCK_SIZE");
}

// Real positions of the particles of a spec; every position is inside the closed box (checked in long double)
template <class Real, int Dim, class DataT, int NbData>
inline void makeInput(const Spec& spec, const std::vector<Particle>& parts,
                      std::vector<std::array<DataT,NbData>>& input, std::vector<Coord>& lat, std::vector<std::array<double,8>>& dat){
    input.resize(parts.size()); lat.resize(parts.size()); dat.resize(parts.size());
    const long cells = 4L << (spec.height-1);
    for(size_t i = 0 ; i < parts.size() ; ++i){
        lat[i] = parts[i].lat;
        dat[i].fill(0);
        for(int d = 0 ; d < Dim ; ++d){
            const Real centre = Real(spec.centre[d]), width = Real(spec.widths[d]);
            const Real corner = centre + width * (-Real(1)/Real(2));
            const Real unit = width / Real(cells);
            Real pos = (parts[i].lat[d] == cells ? centre + width / Real(2) : corner + Real(parts[i].lat[d]) * unit);
            pos = realNudge(pos, parts[i].nudge[d]);
            // keep the input valid: inside the closed box in exact arithmetic
            const long double lo = (long double)centre - (long double)width/2, hi = (long double)centre + (long double)width/2;
            while((long double)pos > hi) pos = std::nextafter(pos, -std::numeric_limits<Real>::infinity());
            while((long double)pos < lo) pos = std::nextafter(pos, std::numeric_limits<Real>::infinity());
            input[i][d] = DataT(pos);
        }
        for(int v = Dim ; v < NbData ; ++v){
            // extra data values: irrational-looking bit patterns that do not survive a float round trip
            input[i][v] = DataT(0.1234567890123456789L * (long double)(i+1) + (long double)v / 3.0L);
        }
        for(int v = 0 ; v < NbData && v < 8 ; ++v) dat[i][v] = double(input[i][v]);
    }
}

template <class Real_T, class SpaceIndex_T, int K_T, int NbExtra_T = 0, class DataT_T = Real_T>
struct Fixture {
    using Real = Real_T;
    using SpaceIndex = SpaceIndex_T;
    using DataT = DataT_T;
    static constexpr int K = K_T;
    static constexpr int Dim = int(SpaceIndex::Dim);
    static constexpr int NbData = Dim + NbExtra_T;
    using Kernel = VKernel<Real, SpaceIndex, K>;
    using Mult = typename Kernel::Multipole;
    using Loc = typename Kernel::Local;
    using Config = TbfSpacialConfiguration<Real, Dim>;
    using Tree = TbfTree<Real, DataT, NbData, u64, 2*K, Mult, Loc, SpaceIndex>;
    using TreeTsm = TbfTreeTsm<Real, DataT, NbData, u64, 2*K, Mult, Loc, SpaceIndex>;
    using Input = std::vector<std::array<DataT,NbData>>;

    Spec spec;
    Config config;
    Input input, inputSrc;
    std::vector<Coord> lat, latSrc;
    std::vector<std::array<double,8>> dat, datSrc;
    Ctx cx;
    std::unique_ptr<Tree> tree;
    std::unique_ptr<TreeTsm> treeTsm;

    static Config makeConfig(const Spec& s){
        std::array<Real,Dim> w, c;
        for(int d = 0 ; d < Dim ; ++d){ w[d] = Real(s.widths[d]); c[d] = Real(s.centre[d]); }
        return Config(s.height, w, c);
    }

    explicit Fixture(const Spec& inSpec, const bool tsm = false, const bool build = true) : spec(inSpec), config(makeConfig(inSpec)){
        const long cells = 4L << (spec.height-1);
        for(int d = 0 ; d < Dim ; ++d) Kernel::unitOf(d) = double(Real(spec.widths[d])) / double(cells);
        makeInput<Real,Dim,DataT,NbData>(spec, spec.parts, input, lat, dat);
        if(tsm) makeInput<Real,Dim,DataT,NbData>(spec, spec.srcParts, inputSrc, latSrc, datSrc);
        cx.dim = Dim; cx.height = spec.height; cx.periodic = SpaceIndex::IsPeriodic;
        cx.nbDataChecked = std::min(NbData, 8);
        cx.latTgt = &lat; cx.dataTgt = &dat;
        cx.latSrc = tsm ? &latSrc : &lat; cx.dataSrc = tsm ? &datSrc : &dat;
        ctxPtr() = &cx;
        setBlockEnv(spec);
        if(build){
            if(tsm) treeTsm.reset(new TreeTsm(config, inputSrc, input, spec.blockSize, spec.oneGroupPerParent));
            else tree.reset(new Tree(config, input, spec.blockSize, spec.oneGroupPerParent));
        }
    }
    ~Fixture(){ if(ctxPtr() == &cx) ctxPtr() = nullptr; }
    void activate(){ ctxPtr() = &cx; const long cells = 4L << (spec.height-1); for(int d = 0 ; d < Dim ; ++d) Kernel::unitOf(d) = double(Real(spec.widths[d])) / double(cells); }

    struct PartResult { bool found = false; long leafIndex = -1; Coord leafCoord; std::array<u64,K> cnt{}, phi{}; int timesStored = 0; };

    template <class TreeClass>
    static void tagTree(TreeClass& t){
        t.applyToAllCells([](const long level, auto& header, auto& m, auto& l){
            if constexpr (!std::is_same<typename std::decay<decltype(m)>::type, std::optional<std::reference_wrapper<void_data>>>::value){
                if(m){ Mult& mm = (*m).get(); mm.tagSet = TagMagic; mm.tagLevel = level; for(int d = 0 ; d < Dim ; ++d) mm.tagCoord[d] = header.boxCoord[d]; }
            }
            if constexpr (!std::is_same<typename std::decay<decltype(l)>::type, std::optional<std::reference_wrapper<void_data>>>::value){
                if(l){ Loc& ll = (*l).get(); ll.tagSet = TagMagic; ll.tagLevel = level; for(int d = 0 ; d < Dim ; ++d) ll.tagCoord[d] = header.boxCoord[d]; }
            }
        });
    }
    void tag(){ if(tree) tagTree(*tree); if(treeTsm) tagTree(*treeTsm); }

    // ---- target/source mode -------------------------------------------------------------------------------
    std::vector<PartResult> extractTsmTargets() const {
        std::vector<PartResult> res(lat.size());
        treeTsm->applyToAllLeavesTarget([&](const auto& header, const long int* idxs, const auto& /*data*/, const auto& rhs){
            for(long p = 0 ; p < header.nbParticles ; ++p){
                const long id = idxs[p];
                if(id < 0 || id >= long(res.size())) continue;
                PartResult& r = res[id];
                r.found = true; r.timesStored += 1; r.leafIndex = header.spaceIndex;
                r.leafCoord = vref::zeroCoord();
                for(int d = 0 ; d < Dim ; ++d) r.leafCoord[d] = header.boxCoord[d];
                for(int s = 0 ; s < K ; ++s){ r.cnt[s] = rhs[s][p]; r.phi[s] = rhs[K+s][p]; }
            }
        });
        return res;
    }
    // hash of every buffer of the source side (particles and cells) / of the target side
    u64 tsmDigest(const bool source) const {
        u64 h = 0x77;
        auto addBuf = [&](const unsigned char* p, size_t n){
            h = hcomb(h, n);
            size_t i = 0;
            for( ; i + 8 <= n ; i += 8){ u64 v; std::memcpy(&v, p+i, 8); h = hcomb(h, v); }
            for( ; i < n ; ++i) h = hcomb(h, p[i]);
        };
        for(long l = 0 ; l < spec.height ; ++l){
            if(source) for(const auto& g : treeTsm->getCellGroupsAtLevelSource(l)){ addBuf(g.getDataPtr(), size_t(g.getDataSize())); addBuf(g.getMultipolePtr(), size_t(g.getMultipoleSize())); addBuf(g.getLocalPtr(), size_t(g.getLocalSize())); }
            else for(const auto& g : treeTsm->getCellGroupsAtLevelTarget(l)){ addBuf(g.getDataPtr(), size_t(g.getDataSize())); addBuf(g.getMultipolePtr(), size_t(g.getMultipoleSize())); addBuf(g.getLocalPtr(), size_t(g.getLocalSize())); }
        }
        if(source) for(const auto& g : treeTsm->getParticleGroupsSource()){ addBuf(g.getDataPtr(), size_t(g.getDataSize())); addBuf(g.getRhsPtr(), size_t(g.getRhsSize())); }
        else for(const auto& g : treeTsm->getParticleGroupsTarget()){ addBuf(g.getDataPtr(), size_t(g.getDataSize())); addBuf(g.getRhsPtr(), size_t(g.getRhsSize())); }
        return h;
    }
    u64 tsmSourceParticleDigest() const {
        u64 h = 0x78;
        for(const auto& g : treeTsm->getParticleGroupsSource()){ const unsigned char* p = g.getDataPtr(); const size_t n = size_t(g.getDataSize()); h = hcomb(h, n); for(size_t i = 0 ; i < n ; ++i) h = hcomb(h, p[i]); }
        return h;
    }

    // images: per-dimension repetition interval [lo,hi] (0,0 when not periodic); times = number of executions
    // target/source: every target gets every source once per image (no self exclusion); single tree: i != j in the central box
    void checkPairsGeneral(Outcome& out, const std::vector<PartResult>& res, const bool tsm, const long lo, const long hi,
                           const bool countChannel, const bool geomChannel) const {
        const auto& srcLat = tsm ? latSrc : lat;
        const u64 W = u64(4) << (spec.height-1);
        const u64 m = u64(hi - lo + 1);
        u64 mPowDm1 = 1; for(int d = 1 ; d < Dim ; ++d) mPowDm1 *= m;
        const u64 images = mPowDm1 * m;
        for(size_t i = 0 ; i < lat.size() ; ++i){
            if(!res[i].found){ out.add("result:particle-missing", "target " + std::to_string(i) + " not in the tree"); continue; }
            std::array<u64,K> ecnt{}, ephi{};
            for(size_t j = 0 ; j < srcLat.size() ; ++j){
                const bool self = (!tsm && i == j);
                u64 sum = 0;
                for(int d = 0 ; d < Dim ; ++d){
                    const u64 a = u64(lat[i][d]) - u64(srcLat[j][d]);
                    u64 s2 = 0;
                    for(long n = lo ; n <= hi ; ++n){ const u64 r = a - u64(n)*W; s2 += r*r; }
                    sum += s2 * mPowDm1;
                }
                ecnt[j % K] += images - (self ? 1 : 0);
                ephi[j % K] += sum;       // the self term at n = 0 is zero anyway
            }
            for(int s = 0 ; s < K ; ++s){
                if(countChannel && res[i].cnt[s] != ecnt[s])
                    out.add(res[i].cnt[s] < ecnt[s] ? "count:missing-contribution" : "count:duplicated-contribution",
                            "particle " + std::to_string(i) + " slot " + std::to_string(s) + " got " + std::to_string(res[i].cnt[s]) + " expected " + std::to_string(ecnt[s]));
                if(geomChannel && res[i].cnt[s] == ecnt[s] && res[i].phi[s] != ephi[s])
                    out.add("geometry:wrong-potential", "particle " + std::to_string(i) + " slot " + std::to_string(s) + " got " + std::to_string(res[i].phi[s]) + " expected " + std::to_string(ephi[s]));
            }
        }
    }

    template <class Algo>
    void run(const int flags = TbfAlgorithmUtils::TbfNearAndFarFields){
        activate();
        auto algo = std::make_unique<Algo>(config, spec.upperLevel);
        algo->execute(*tree, flags);
    }

    // hash of every byte of every group buffer, in tree order (contents only, no addresses)
    template <class TreeClass>
    static u64 digestOf(const TreeClass& t, const int which = 0x1f){
        u64 h = 0x5151;
        auto addBuf = [&](const unsigned char* p, size_t n){
            h = hcomb(h, n);
            size_t i = 0;
            for( ; i + 8 <= n ; i += 8){ u64 v; std::memcpy(&v, p+i, 8); h = hcomb(h, v); }
            for( ; i < n ; ++i) h = hcomb(h, p[i]);
        };
        for(long l = 0 ; l < t.getHeight() ; ++l){
            for(const auto& g : t.getCellGroupsAtLevel(l)){
                // (the const overload of getDataPtrsAndSizes() does not compile; use the single-buffer accessors)
                if(which & 1) addBuf(g.getDataPtr(), size_t(g.getDataSize()));
                if(which & 2) addBuf(g.getMultipolePtr(), size_t(g.getMultipoleSize()));
                if(which & 4) addBuf(g.getLocalPtr(), size_t(g.getLocalSize()));
            }
        }
        for(const auto& g : t.getParticleGroups()){
            if(which & 8) addBuf(g.getDataPtr(), size_t(g.getDataSize()));
            if(which & 16) addBuf(g.getRhsPtr(), size_t(g.getRhsSize()));
        }
        return h;
    }
    u64 treeDigest(const int which = 0x1f) const { return digestOf(*tree, which); }


    template <class TreeClass>
    std::vector<PartResult> extractFrom(const TreeClass& t, const size_t nb) const {
        std::vector<PartResult> res(nb);
        t.applyToAllLeaves([&](const auto& header, const long int* idxs, const auto& /*data*/, const auto& rhs){
            for(long p = 0 ; p < header.nbParticles ; ++p){
                const long id = idxs[p];
                if(id < 0 || id >= long(nb)) continue;
                PartResult& r = res[id];
                r.found = true; r.timesStored += 1; r.leafIndex = header.spaceIndex;
                r.leafCoord = vref::zeroCoord();
                for(int d = 0 ; d < Dim ; ++d) r.leafCoord[d] = header.boxCoord[d];
                if constexpr (std::tuple_size<typename std::decay<decltype(rhs)>::type>::value == size_t(2*K)){
                    for(int s = 0 ; s < K ; ++s){ r.cnt[s] = rhs[s][p]; r.phi[s] = rhs[K+s][p]; }
                }
            }
        });
        return res;
    }
    std::vector<PartResult> extract() const { return extractFrom(*tree, lat.size()); }

    //////////////////////////////////////////////////////////////////////////
    // C01 / C02(b): every particle got every other particle exactly `times` times (count channel), and the
    // phi channel equals the exact direct sum (geometry channel).
    void checkPairs(Outcome& out, const u64 times, const bool countChannel, const bool geomChannel) const {
        const auto res = extract();
        const size_t n = lat.size();
        for(size_t i = 0 ; i < n ; ++i){
            if(!res[i].found){ out.add("result:particle-missing", "particle " + std::to_string(i) + " not in the tree"); continue; }
            std::array<u64,K> ecnt{}, ephi{};
            for(size_t j = 0 ; j < n ; ++j){
                if(j == i) continue;
                u64 r2 = 0;
                for(int d = 0 ; d < Dim ; ++d){ const u64 r = u64(lat[i][d]) - u64(lat[j][d]); r2 += r*r; }
                ecnt[j % K] += times; ephi[j % K] += times*r2;
            }
            for(int s = 0 ; s < K ; ++s){
                if(countChannel && res[i].cnt[s] != ecnt[s]){
                    const bool selfSlot = (int(i % K) == s) && n <= size_t(K);
                    const std::string key = selfSlot ? "count:self-interaction" : (res[i].cnt[s] < ecnt[s] ? "count:missing-contribution" : "count:duplicated-contribution");
                    out.add(key, "particle " + std::to_string(i) + " slot " + std::to_string(s) + " got " + std::to_string(res[i].cnt[s]) + " expected " + std::to_string(ecnt[s]));
                }
                if(geomChannel && res[i].cnt[s] == ecnt[s] && res[i].phi[s] != ephi[s]){
                    out.add("geometry:wrong-potential", "particle " + std::to_string(i) + " slot " + std::to_string(s) + " got " + std::to_string(res[i].phi[s]) + " expected " + std::to_string(ephi[s]));
                }
            }
        }
    }

    // C01 "equivalently": every cell's multipole = sum over the particles it contains; every cell's local = sum over
    // the cell and its ancestors (down to the upper working level) of the multipoles of their interaction lists.
    // Only meaningful when every particle has its own slot (n <= K), non-periodic ordering.
    void checkCells(Outcome& out, const bool geomChannel) const {
        const size_t n = lat.size();
        if(n > size_t(K)) return;
        const auto res = extract();
        const long up = std::max(0L, spec.upperLevel);
        tree->applyToAllCells([&](const long level, const auto& header, const auto& m, const auto& l){
            Coord c = vref::zeroCoord();
            for(int d = 0 ; d < Dim ; ++d) c[d] = header.boxCoord[d];
            const Mult& mm = (*m).get(); const Loc& ll = (*l).get();
            const u64 w = u64(4) << (spec.height-1-level);     // cell width, lattice units
            for(size_t j = 0 ; j < n ; ++j){
                if(!res[j].found) continue;
                // ancestor of j's leaf at this level
                bool inside = true;
                for(int d = 0 ; d < Dim ; ++d) if((res[j].leafCoord[d] >> (spec.height-1-level)) != c[d]) inside = false;
                const bool active = (level >= up) && spec.height > up;   // P2M/M2M run at and below the upper level
                const u64 em0 = (inside && active) ? 1 : 0;
                if(mm.m0[j] != em0) out.add("cell:multipole-count", "level " + std::to_string(level) + " cell " + vref::coordStr(c, Dim) + " source " + std::to_string(j) + " got " + std::to_string(mm.m0[j]) + " expected " + std::to_string(em0));
                if(geomChannel && mm.m0[j] == em0){
                    u64 em2 = 0; bool okm1 = true;
                    for(int d = 0 ; d < Dim ; ++d){
                        const u64 r = em0 ? (u64(lat[j][d]) - (u64(c[d])*w + w/2)) : 0;
                        em2 += r*r;
                        if(mm.m1[j][d] != r) okm1 = false;
                    }
                    if(!okm1 || mm.m2[j] != em2) out.add("geometry:cell-multipole", "level " + std::to_string(level) + " cell " + vref::coordStr(c, Dim) + " source " + std::to_string(j));
                }
                // local count channel: number of levels l' in [max(up,1or2) .. level] at which the ancestors are in each other's interaction list
                u64 el2 = 0;
                if(spec.height > up){
                    for(long lp = std::max(up, 2L) ; lp <= level ; ++lp){
                        Coord a = vref::zeroCoord(), b = vref::zeroCoord();
                        for(int d = 0 ; d < Dim ; ++d){ a[d] = c[d] >> (level-lp); b[d] = res[j].leafCoord[d] >> (spec.height-1-lp); }
                        if(vref::chebyshev(a, b, Dim) >= 2 && vref::chebyshev(vref::parentCoord(a, Dim), vref::parentCoord(b, Dim), Dim) <= 1) el2 += 1;
                    }
                }
                if(ll.l2[j] != el2) out.add("cell:local-count", "level " + std::to_string(level) + " cell " + vref::coordStr(c, Dim) + " source " + std::to_string(j) + " got " + std::to_string(ll.l2[j]) + " expected " + std::to_string(el2));
            }
        });
    }

    //////////////////////////////////////////////////////////////////////////
    // C07: the tree is the sorted, partitioned ancestor closure of the occupied leaves
    template <class TreeClass>
    void checkStructureOf(Outcome& out, const TreeClass& t, const std::vector<Coord>& particleLat, const char* which) const {
        const std::string W = which;
        // occupied leaves as the library binned them (leaf headers), then reference closure
        std::vector<Coord> leafCoords;
        t.applyToAllLeaves([&](const auto& header, const long int*, const auto&, const auto&){
            Coord c = vref::zeroCoord(); for(int d = 0 ; d < Dim ; ++d) c[d] = header.boxCoord[d]; leafCoords.push_back(c);
        });
        if(particleLat.empty()){
            if(t.getNbParticleGroups() != 0) out.add(W+"structure:groups-for-empty-input", "particle groups exist for an empty input");
            return;
        }
        // the leaves of the tree are exactly the occupied ones: every input particle has a leaf whose closed box contains it,
        // and every leaf contains at least one input particle (positions on a cell face admit both neighbours)
        {
            const long cellsPerDim = 1L << (spec.height-1);
            auto admits = [&](const Coord& leaf, const Coord& plat){
                for(int d = 0 ; d < Dim ; ++d) if(plat[d] < 4*leaf[d] || plat[d] > 4*leaf[d]+4 || leaf[d] < 0 || leaf[d] >= cellsPerDim) return false;
                return true;
            };
            for(size_t i = 0 ; i < particleLat.size() ; ++i){
                bool covered = false;
                for(const auto& c : leafCoords) if(admits(c, particleLat[i])){ covered = true; break; }
                if(!covered) out.add(W+"structure:occupied-leaf-missing", "no leaf of the tree contains particle " + std::to_string(i));
            }
            for(const auto& c : leafCoords){
                bool used = false;
                for(const auto& pl : particleLat) if(admits(c, pl)){ used = true; break; }
                if(!used) out.add(W+"structure:leaf-without-particle", "leaf " + vref::coordStr(c, Dim) + " contains no input particle");
            }
        }
        // ancestor closure by coordinates (definition), kept as coordinate sets per level
        std::vector<std::set<std::vector<long>>> ref(spec.height);
        for(const auto& c : leafCoords) ref[spec.height-1].insert(std::vector<long>(c.begin(), c.begin()+Dim));
        for(int l = spec.height-1 ; l > 0 ; --l) for(const auto& v : ref[l]){ std::vector<long> p(Dim); for(int d = 0 ; d < Dim ; ++d) p[d] = v[d] >> 1; ref[l-1].insert(p); }
        const auto& sp = t.getSpacialSystem();
        for(long l = 0 ; l < spec.height ; ++l){
            const auto& groups = t.getCellGroupsAtLevel(l);
            long prev = -1; size_t total = 0;
            std::set<std::vector<long>> seen;
            for(size_t g = 0 ; g < groups.size() ; ++g){
                const auto& grp = groups[g];
                if(grp.getNbCells() <= 0){ out.add(W+"structure:empty-group", "level " + std::to_string(l) + " group " + std::to_string(g)); continue; }
                if(!spec.oneGroupPerParent && spec.blockSize >= 1 && grp.getNbCells() > spec.blockSize)
                    out.add(W+"structure:group-too-large", "level " + std::to_string(l) + " group " + std::to_string(g) + " has " + std::to_string(grp.getNbCells()));
                if(false)
                    out.add(W+"structure:leaf-group-too-large", "group " + std::to_string(g) + " has " + std::to_string(grp.getNbCells()));
                if(grp.getStartingSpacialIndex() != grp.getCellSpacialIndex(0) || grp.getEndingSpacialIndex() != grp.getCellSpacialIndex(grp.getNbCells()-1))
                    out.add(W+"structure:header-range", "level " + std::to_string(l) + " group " + std::to_string(g));
                for(long i = 0 ; i < grp.getNbCells() ; ++i){
                    const long idx = grp.getCellSpacialIndex(i);
                    if(idx <= prev) out.add(W+"structure:not-increasing", "level " + std::to_string(l) + " group " + std::to_string(g) + " cell " + std::to_string(i));
                    prev = idx;
                    const auto bc = grp.getCellBoxCoord(i);
                    if(sp.getIndexFromBoxPos(bc) != idx) out.add(W+"structure:header-coord", "cell coordinate does not encode to its index");
                    seen.insert(std::vector<long>(bc.begin(), bc.end()));
                    total += 1;
                }
            }
            if(seen != ref[l] || total != ref[l].size()) out.add(W+"structure:level-not-ancestor-closure", "level " + std::to_string(l) + " has " + std::to_string(total) + " cells, closure has " + std::to_string(ref[l].size()));
        }
        // leaf cell groups <-> particle groups, cell by cell
        const auto& lg = t.getLeafGroups(); const auto& pg = t.getParticleGroups();
        if(lg.size() != pg.size()) out.add(W+"structure:leaf-vs-particle-groups", "different number of groups");
        else for(size_t g = 0 ; g < lg.size() ; ++g){
            if(lg[g].getNbCells() != pg[g].getNbLeaves() || lg[g].getStartingSpacialIndex() != pg[g].getStartingSpacialIndex() || lg[g].getEndingSpacialIndex() != pg[g].getEndingSpacialIndex()){
                out.add(W+"structure:leaf-vs-particle-groups", "group " + std::to_string(g)); continue; }
            long nbp = 0;
            for(long i = 0 ; i < lg[g].getNbCells() ; ++i){
                if(lg[g].getCellSpacialIndex(i) != pg[g].getLeafSpacialIndex(i)) out.add(W+"structure:leaf-vs-particle-groups", "group " + std::to_string(g) + " leaf " + std::to_string(i));
                if(pg[g].getNbParticlesInLeaf(i) <= 0) out.add(W+"structure:empty-leaf", "group " + std::to_string(g) + " leaf " + std::to_string(i));
                if(pg[g].getLeafSymbData(i).offSet != nbp) out.add(W+"structure:leaf-offset", "group " + std::to_string(g) + " leaf " + std::to_string(i));
                nbp += pg[g].getNbParticlesInLeaf(i);
            }
            if(nbp != pg[g].getNbParticles()) out.add(W+"structure:particle-count", "group " + std::to_string(g));
        }
    }
    void checkStructure(Outcome& out) const { checkStructureOf(out, *tree, lat, ""); }

    //////////////////////////////////////////////////////////////////////////
    // C06: every particle stored once, in the leaf containing it, data bit-exact, rhs/expansions zero
    template <class TreeClass>
    void checkConstructionOf(Outcome& out, const TreeClass& t, const Input& in, const std::vector<Coord>& plat, const char* which, const bool expectZero) const {
        const std::string W = which;
        std::vector<int> stored(in.size(), 0);
        const long limit = 1L << (spec.height-1);
        t.applyToAllLeaves([&](const auto& header, const long int* idxs, const auto& data, const auto& rhs){
            for(int d = 0 ; d < Dim ; ++d) if(header.boxCoord[d] < 0 || header.boxCoord[d] >= limit) out.add(W+"construction:leaf-outside-grid", "leaf coordinate " + std::to_string(header.boxCoord[d]));
            for(long p = 0 ; p < header.nbParticles ; ++p){
                const long id = idxs[p];
                if(id < 0 || id >= long(in.size())){ out.add(W+"construction:index-range", "index " + std::to_string(id)); continue; }
                stored[id] += 1;
                for(int v = 0 ; v < NbData ; ++v){
                    if(std::memcmp(&data[v][p], &in[id][v], sizeof(DataT)) != 0) out.add(W+"construction:data-bits", "particle " + std::to_string(id) + " value " + std::to_string(v));
                }
                for(int d = 0 ; d < Dim ; ++d){
                    // closed leaf box, in real numbers, tolerance 4 ulp of the coordinate transform
                    const long double corner = (long double)Real(spec.centre[d]) - (long double)Real(spec.widths[d])/2;
                    const long double lw = (long double)Real(spec.widths[d]) / (long double)limit;
                    const long double lo = corner + lw*header.boxCoord[d], hi = lo + lw;
                    const long double x = (long double)in[id][d];
                    const long double tol = 4 * (long double)std::numeric_limits<Real>::epsilon() * std::max<long double>(std::fabs(x), std::fabs((long double)Real(spec.widths[d])));
                    if(x < lo - tol || x > hi + tol) out.add(W+"construction:wrong-leaf", "particle " + std::to_string(id) + " dim " + std::to_string(d) + " leaf coord " + std::to_string(header.boxCoord[d]));
                    // and with the exact lattice (no tolerance needed: closed box)
                    if(plat[id][d] < 4*header.boxCoord[d] || plat[id][d] > 4*header.boxCoord[d]+4) out.add(W+"construction:wrong-leaf-lattice", "particle " + std::to_string(id) + " dim " + std::to_string(d));
                }
                if constexpr (std::tuple_size<typename std::decay<decltype(rhs)>::type>::value > 0){
                    if(expectZero){
                        for(size_t r = 0 ; r < std::tuple_size<typename std::decay<decltype(rhs)>::type>::value ; ++r){
                            if(rhs[r][p] != 0) out.add(W+"construction:rhs-not-zero", "particle " + std::to_string(id));
                        }
                    }
                }
            }
        });
        for(size_t i = 0 ; i < in.size() ; ++i){
            if(stored[i] == 0) out.add(W+"construction:particle-missing", "particle " + std::to_string(i));
            if(stored[i] > 1) out.add(W+"construction:particle-duplicated", "particle " + std::to_string(i));
        }
        if(t.getNbParticles() != long(in.size())) out.add(W+"construction:nb-particles", std::to_string(t.getNbParticles()));
        if(expectZero){
            for(long l = 0 ; l < t.getHeight() ; ++l) for(const auto& g : t.getCellGroupsAtLevel(l)){
                const std::pair<const unsigned char*, size_t> ps[2] = {{g.getMultipolePtr(), size_t(g.getMultipoleSize())}, {g.getLocalPtr(), size_t(g.getLocalSize())}};
                for(int b = 0 ; b < 2 ; ++b){
                    // every byte of the multipole / local payload (the 16-byte trailer holds the count and the offset)
                    const size_t payload = ps[b].second >= 16 ? ps[b].second - 16 : 0;
                    for(size_t i = 0 ; i < payload ; ++i) if(ps[b].first[i] != 0){ out.add(W+"construction:expansion-not-zero", "level " + std::to_string(l)); break; }
                }
            }
        }
    }
    void checkConstruction(Outcome& out, const bool expectZero = true) const { checkConstructionOf(out, *tree, input, lat, "", expectZero); }

    //////////////////////////////////////////////////////////////////////////
    // C16: lookup finds exactly what exists
    template <class TreeClass>
    long checkLookupOf(Outcome& out, TreeClass& t, const char* which) const {
        const std::string W = which;
        long queries = 0;
        const auto& sp = t.getSpacialSystem();
        for(long l = 0 ; l < spec.height ; ++l){
            std::set<long> exist;
            for(const auto& g : t.getCellGroupsAtLevel(l)) for(long i = 0 ; i < g.getNbCells() ; ++i) exist.insert(g.getCellSpacialIndex(i));
            const long ub = 1L << (l*Dim);
            for(long q = -2 ; q <= ub+2 ; ++q){
                auto found = t.findGroupWithCell(l, q);
                queries += 1;
                const bool should = exist.count(q) != 0;
                if(bool(found) != should){ out.add(W+(should ? "lookup:cell-not-found" : "lookup:absent-cell-found"), "level " + std::to_string(l) + " index " + std::to_string(q)); continue; }
                if(found){
                    const auto& grp = found->first.get();
                    const long pos = found->second;
                    if(pos < 0 || pos >= grp.getNbCells() || grp.getCellSpacialIndex(pos) != q) out.add(W+"lookup:cell-wrong-handle", "level " + std::to_string(l) + " index " + std::to_string(q));
                }
            }
            // per group: element from spacial index / from parent index
            for(const auto& g : t.getCellGroupsAtLevel(l)){
                std::set<long> mine, parents;
                for(long i = 0 ; i < g.getNbCells() ; ++i){ mine.insert(g.getCellSpacialIndex(i)); parents.insert(g.getCellSpacialIndex(i) >> Dim); }
                for(long q = -2 ; q <= ub+2 ; ++q){
                    const auto e = g.getElementFromSpacialIndex(q);
                    queries += 1;
                    if(bool(e) != (mine.count(q) != 0)) out.add(W+"lookup:group-element", "level " + std::to_string(l) + " index " + std::to_string(q));
                    else if(e && g.getCellSpacialIndex(*e) != q) out.add(W+"lookup:group-element-position", "level " + std::to_string(l) + " index " + std::to_string(q));
                }
                const long ubp = (l >= 1 ? (1L << ((l-1)*Dim)) : 1);
                for(long q = -2 ; q <= ubp+2 ; ++q){
                    const auto e = g.getElementFromParentIndex(sp, q);
                    queries += 1;
                    if(bool(e) != (parents.count(q) != 0)) out.add(W+"lookup:group-parent-element", "level " + std::to_string(l) + " parent " + std::to_string(q));
                    else if(e){
                        // must be the FIRST child of that parent in the group
                        if((g.getCellSpacialIndex(*e) >> Dim) != q || (*e > 0 && (g.getCellSpacialIndex(*e-1) >> Dim) == q))
                            out.add(W+"lookup:group-parent-element-position", "level " + std::to_string(l) + " parent " + std::to_string(q));
                    }
                }
            }
        }
        {
            std::set<long> exist;
            for(const auto& g : t.getParticleGroups()) for(long i = 0 ; i < g.getNbLeaves() ; ++i) exist.insert(g.getLeafSpacialIndex(i));
            const long ub = 1L << ((spec.height-1)*Dim);
            for(long q = -2 ; q <= ub+2 ; ++q){
                auto found = t.findGroupWithLeaf(q);
                queries += 1;
                const bool should = exist.count(q) != 0;
                if(bool(found) != should){ out.add(W+(should ? "lookup:leaf-not-found" : "lookup:absent-leaf-found"), "index " + std::to_string(q)); continue; }
                if(found){
                    const auto& grp = found->first.get();
                    const long pos = found->second;
                    if(pos < 0 || pos >= grp.getNbLeaves() || grp.getLeafSpacialIndex(pos) != q) out.add(W+"lookup:leaf-wrong-handle", "index " + std::to_string(q));
                }
            }
            for(const auto& g : t.getParticleGroups()){
                std::set<long> mine;
                for(long i = 0 ; i < g.getNbLeaves() ; ++i) mine.insert(g.getLeafSpacialIndex(i));
                for(long q = -2 ; q <= ub+2 ; ++q){
                    const auto e = g.getElementFromSpacialIndex(q);
                    queries += 1;
                    if(bool(e) != (mine.count(q) != 0)) out.add(W+"lookup:leafgroup-element", "index " + std::to_string(q));
                    else if(e && g.getLeafSpacialIndex(*e) != q) out.add(W+"lookup:leafgroup-element-position", "index " + std::to_string(q));
                }
            }
        }
        return queries;
    }
    long checkLookup(Outcome& out){ return checkLookupOf(out, *tree, ""); }

    // C18: exact number of elementary interactions implied by the tree (non-periodic), in the counter's units
    struct RefCounts { long P2M = 0, M2M = 0, M2L = 0, L2L = 0, L2P = 0, P2P = 0, P2PInner = 0; };
    RefCounts referenceCounts() const {
        RefCounts rc;
        std::map<std::vector<long>, long> leaves;
        tree->applyToAllLeaves([&](const auto& header, const long int*, const auto&, const auto&){
            leaves[std::vector<long>(header.boxCoord.begin(), header.boxCoord.end())] += header.nbParticles;
        });
        const long up = std::max(0L, spec.upperLevel);
        const long h = spec.height;
        std::vector<std::set<std::vector<long>>> cells(h);
        for(const auto& kv : leaves) cells[h-1].insert(kv.first);
        for(long l = h-1 ; l > 0 ; --l) for(const auto& v : cells[l]){ std::vector<long> p(Dim); for(int d = 0 ; d < Dim ; ++d) p[d] = v[d] >> 1; cells[l-1].insert(p); }
        if(h > up){ rc.P2M = long(leaves.size()); rc.L2P = long(leaves.size()); }
        for(long l = h-2 ; l >= up ; --l){ rc.M2M += long(cells[l+1].size()); rc.L2L += long(cells[l+1].size()); }
        for(long l = std::max(up, 2L) ; l <= h-1 ; ++l){
            for(const auto& v : cells[l]){
                Coord c = vref::zeroCoord(); for(int d = 0 ; d < Dim ; ++d) c[d] = v[d];
                for(const auto& r : vref::interactions(c, Dim, int(l), false)){
                    if(cells[l].count(std::vector<long>(r.coord.begin(), r.coord.begin()+Dim))) rc.M2L += 1;
                }
            }
        }
        const long limit = 1L << (h-1);
        for(const auto& kv : leaves){
            Coord c = vref::zeroCoord(); for(int d = 0 ; d < Dim ; ++d) c[d] = kv.first[d];
            rc.P2PInner += kv.second*kv.second - kv.second;
            for(const auto& r : vref::neighbours(c, Dim, limit, false)){
                if(!(vref::relCode(r.offset, Dim, 3) > vref::ipow(3, Dim)/2)) continue;
                auto it = leaves.find(std::vector<long>(r.coord.begin(), r.coord.begin()+Dim));
                if(it != leaves.end()) rc.P2P += kv.second * it->second;
            }
        }
        return rc;
    }
    template <class Counters>
    static void compareCounts(Outcome& out, const Counters& c, const RefCounts& rc, const long times = 1){
        auto cmp = [&](const char* n, long got, long exp){ if(got != exp*times) out.add(std::string("counter:") + n, std::string(n) + " counted " + std::to_string(got) + " expected " + std::to_string(exp*times)); };
        cmp("P2M", c.P2M, rc.P2M); cmp("M2M", c.M2M, rc.M2M); cmp("M2L", c.M2L, rc.M2L); cmp("L2L", c.L2L, rc.L2L);
        cmp("L2P", c.L2P, rc.L2P); cmp("P2P", c.P2P, rc.P2P); cmp("P2PInner", c.P2PInner, rc.P2PInner);
    }

    void collectKernelViolations(Outcome& out, const bool geometryKeysOnly = false, const bool skipGeometryKeys = false) const {
        for(const auto& kv : cx.violations){
            (void)geometryKeysOnly; (void)skipGeometryKeys;
            out.add("call:" + kv.first, kv.second);
        }
    }

    long nbGroupsTotal() const {
        long n = 0;
        for(long l = 0 ; l < spec.height ; ++l) n += tree->getNbCellGroupsAtLevel(l);
        return n;
    }
};

} // namespace vf

#endif
