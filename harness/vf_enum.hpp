// Deterministic enumerators of input shapes and configurations (simplest first), result plumbing for drivers.
#ifndef VF_ENUM_HPP
#define VF_ENUM_HPP

#include "vf_case.hpp"

#include <functional>
#include <fstream>
#include <chrono>
#include <ctime>
#include <csignal>
#include <sys/mman.h>
#include <sys/wait.h>
#include <unistd.h>
#include <fcntl.h>

#if defined(__SANITIZE_ADDRESS__)
extern "C" int __lsan_do_recoverable_leak_check(void);
#endif

namespace vf {

// ---- motifs: where particles sit inside an occupied leaf -------------------------------------------
enum Motif {
    MCentre = 0,        // 1 particle at the leaf centre
    MMixed,             // 1 particle, at 1/4 or 3/4 per dimension depending on leaf parity (never symmetric)
    MCorner,            // 1 particle on the lattice-aligned lower corner of the leaf (on cell faces / box faces)
    MTwo,               // 2 distinct particles (1/4 and 3/4 diagonal)
    MTwoSame,           // 2 coincident particles at the centre
    MUpperFace,         // 1 particle at the centre, but the last leaf's particle sits exactly on the upper box face/corner
    MUlpInside,         // 1 particle one ulp inside the lower faces of the leaf (real coordinate nudged)
    MUlpBelow,          // 1 particle one ulp below the upper faces of the leaf
    MVaried,            // 1, 2 or 3 particles depending on the leaf ordinal (adjacent leaves hold different numbers of particles)
    MotifCount
};
inline const char* motifName(int m){
    static const char* n[] = {"centre","mixed","corner","two","two-same","upper-face","ulp-inside","ulp-below","varied"};
    return n[m];
}

inline void addMotifParticles(std::vector<Particle>& parts, const Coord& leaf, const int dim, const int height, const int motif, const bool lastLeaf, const long leafOrdinal){
    Particle p; p.lat = vref::zeroCoord();
    const long cells = 1L << (height-1);
    auto base = [&](long inLeaf){ for(int d = 0 ; d < dim ; ++d) p.lat[d] = 4*leaf[d] + inLeaf; };
    switch(motif){
    case MCentre: base(2); parts.push_back(p); break;
    case MMixed: for(int d = 0 ; d < dim ; ++d) p.lat[d] = 4*leaf[d] + (((leaf[d] + d + leafOrdinal) & 1) ? 1 : 3); parts.push_back(p); break;
    case MCorner: base(0); parts.push_back(p); break;
    case MTwo: base(1); parts.push_back(p); base(3); parts.push_back(p); break;
    case MTwoSame: base(2); parts.push_back(p); parts.push_back(p); break;
    case MUpperFace:
        base(2);
        if(lastLeaf){ for(int d = 0 ; d < dim ; ++d) if(leaf[d] == cells-1) p.lat[d] = 4*cells; }
        parts.push_back(p); break;
    case MUlpInside: base(0); for(int d = 0 ; d < dim ; ++d) p.nudge[d] = 1; parts.push_back(p); break;
    case MVaried: { const long n = 1 + (leafOrdinal % 3); const long offs[3] = {1, 3, 2}; for(long k = 0 ; k < n ; ++k){ base(offs[k]); parts.push_back(p); } break; }
    case MUlpBelow: base(4); for(int d = 0 ; d < dim ; ++d) p.nudge[d] = -1; parts.push_back(p); break;
    default: break;
    }
}

// ---- boxes -------------------------------------------------------------------------------------------
struct Box { std::array<double,4> centre, widths; bool dyadic; const char* name; };
inline const std::vector<Box>& boxes(){
    static const std::vector<Box> b = {
        {{{0.5,0.5,0.5,0.5}}, {{1,1,1,1}}, true, "unit"},
        {{{-11.3,-11.3,-11.3,-11.3}}, {{3.7,3.7,3.7,3.7}}, false, "shifted-3.7"},
        {{{0.5,0.5,0.5,0.5}}, {{9.5367431640625e-07,9.5367431640625e-07,9.5367431640625e-07,9.5367431640625e-07}}, true, "tiny-2^-20"},
        {{{0.5,1.0,0.25,2.0}}, {{1,2,0.5,4}}, true, "per-dim-widths"},
        {{{0.1,0.1,0.1,0.1}}, {{0.3,0.3,0.3,0.3}}, false, "non-dyadic-0.3"},
        {{{-8,-8,-8,-8}}, {{16,16,16,16}}, true, "dyadic-16"},
    };
    return b;
}

// ---- occupancy patterns --------------------------------------------------------------------------------
// all non-empty subsets of nLeaves leaves if maxSubset == 0, otherwise every subset of size 1..maxSubset
inline unsigned long nbPatterns(const long nLeaves, const int maxSubset){
    if(maxSubset == 0) return (1UL << nLeaves) - 1;
    unsigned long total = 0, c = 1;
    for(int k = 1 ; k <= maxSubset && k <= nLeaves ; ++k){ c = c * (nLeaves-k+1) / k; total += c; }
    return total;
}

// visits subsets in order: size 1 first (then 2, ...) when maxSubset > 0; by increasing bit mask otherwise
inline void forEachPattern(const long nLeaves, const int maxSubset, const unsigned long slice, const unsigned long nbSlices,
                           const std::function<void(const std::vector<long>&)>& f){
    unsigned long ordinal = 0;
    std::vector<long> cur;
    if(maxSubset == 0){
        for(unsigned long mask = 1 ; mask < (1UL << nLeaves) ; ++mask, ++ordinal){
            if(ordinal % nbSlices != slice) continue;
            cur.clear();
            for(long l = 0 ; l < nLeaves ; ++l) if((mask >> l) & 1) cur.push_back(l);
            f(cur);
        }
        return;
    }
    for(int k = 1 ; k <= maxSubset && k <= nLeaves ; ++k){
        std::vector<long> idx(k);
        for(int i = 0 ; i < k ; ++i) idx[i] = i;
        while(true){
            if(ordinal % nbSlices == slice) f(idx);
            ++ordinal;
            int i = k-1;
            while(i >= 0 && idx[i] == nLeaves-k+i) --i;
            if(i < 0) break;
            ++idx[i];
            for(int j = i+1 ; j < k ; ++j) idx[j] = idx[j-1]+1;
        }
    }
}

inline std::vector<long> blockSizesFor(const long nLeavesOccupied, const bool all){
    std::vector<long> r;
    if(all || nLeavesOccupied <= 16){ for(long b = 1 ; b <= nLeavesOccupied+1 ; ++b) r.push_back(b); }
    else {
        for(long b : {1L,2L,3L,7L,8L,9L,nLeavesOccupied-1,nLeavesOccupied,nLeavesOccupied+1,10000000L}) if(std::find(r.begin(), r.end(), b) == r.end()) r.push_back(b);
    }
    r.push_back(-1);      // automatic block size (TbfBlockSizeFinder)
    return r;
}

inline Spec makeSpec(const int dim, const int height, const std::vector<long>& leaves, const int motif, const Box& box,
                     const long blockSize, const bool ogpp, const long upper){
    Spec s; s.dim = dim; s.height = height; s.centre = box.centre; s.widths = box.widths;
    s.blockSize = blockSize; s.oneGroupPerParent = ogpp; s.upperLevel = upper;
    for(size_t i = 0 ; i < leaves.size() ; ++i){
        const Coord c = vref::unmorton(leaves[i], dim, height-1);
        addMotifParticles(s.parts, c, dim, height, motif, i+1 == leaves.size(), long(i));
    }
    return s;
}

// ---- result plumbing -------------------------------------------------------------------------------------
inline std::string jsonEscape(const std::string& s){
    std::string o;
    for(char c : s){
        if(c == '"' || c == '\\'){ o += '\\'; o += c; }
        else if(c == '\n') o += "\\n";
        else if((unsigned char)c < 0x20) o += ' ';
        else o += c;
    }
    return o;
}

struct Report {
    std::string property;
    unsigned long evaluations = 0;
    unsigned long nontrivial = 0;
    unsigned long states = 0, transitions = 0, traces = 0;
    std::map<std::string, std::pair<std::string,std::string>> violations;   // key -> (case, detail)
    std::map<std::string, unsigned long> violationCounts;
    std::vector<std::string> samples;
    std::map<std::string, unsigned long> counters;
    std::vector<std::string> spaces;
    std::set<std::string> spacesCut;      // spaces whose enumeration the deadline interrupted (the others were covered completely)
    bool exhaustive = true;
    void cut(){ exhaustive = false; if(!spaces.empty()) spacesCut.insert(spaces.back()); }
    void cutSpace(const std::string& desc){ exhaustive = false; spacesCut.insert(desc); if(std::find(spaces.begin(), spaces.end(), desc) == spaces.end()) spaces.push_back(desc); }
    std::chrono::steady_clock::time_point start = std::chrono::steady_clock::now();
    double deadlineSeconds = 1e18;

    bool timeUp() const { return std::chrono::duration<double>(std::chrono::steady_clock::now() - start).count() > deadlineSeconds; }

    std::string sideFile;      // new violation keys are appended here at once, so that they survive a later crash of the process
    void addOutcome(const Outcome& o, const std::string& caseStr, const std::string& keyPrefix = ""){
        for(const auto& v : o.violations){
            const std::string k = keyPrefix + v.key;
            violationCounts[k] += 1;
            if(violations.find(k) == violations.end()){
                violations[k] = {caseStr, v.detail};
                if(!sideFile.empty()){
                    std::ofstream f(sideFile, std::ios::app);
                    f << k << "\x1f" << caseStr << "\x1f" << v.detail << "\x1e";
                }
            }
        }
    }
    void mergeSideFile(const std::string& path){
        std::ifstream f(path); std::stringstream ss; ss << f.rdbuf();
        const std::string all = ss.str();
        size_t pos = 0;
        while(pos < all.size()){
            const size_t e = all.find('\x1e', pos);
            if(e == std::string::npos) break;
            const std::string rec = all.substr(pos, e-pos);
            const size_t a = rec.find('\x1f'), b = rec.find('\x1f', a+1);
            if(a != std::string::npos && b != std::string::npos){
                const std::string k = rec.substr(0, a);
                violationCounts[k] += 1;
                if(violations.find(k) == violations.end()) violations[k] = {rec.substr(a+1, b-a-1), rec.substr(b+1)};
            }
            pos = e+1;
        }
    }
    void sample(const std::string& s, size_t maxSamples = 6){ if(samples.size() < maxSamples) samples.push_back(s); }

    void write(const std::string& path) const {
        std::ofstream f(path);
        f << "{\n \"property\": \"" << property << "\",\n \"evaluations\": " << evaluations << ",\n \"nontrivial\": " << nontrivial
          << ",\n \"states\": " << states << ",\n \"transitions\": " << transitions << ",\n \"traces\": " << traces
          << ",\n \"exhaustive\": " << (exhaustive ? "true" : "false") << ",\n \"violations\": [";
        bool first = true;
        for(const auto& kv : violations){
            f << (first ? "" : ",") << "\n  {\"key\": \"" << jsonEscape(kv.first) << "\", \"case\": \"" << jsonEscape(kv.second.first) << "\", \"detail\": \""
              << jsonEscape(kv.second.second) << "\", \"count\": " << violationCounts.at(kv.first) << "}";
            first = false;
        }
        f << "\n ],\n \"samples\": [";
        for(size_t i = 0 ; i < samples.size() ; ++i) f << (i ? "," : "") << "\n  \"" << jsonEscape(samples[i]) << "\"";
        f << "\n ],\n \"spaces\": [";
        for(size_t i = 0 ; i < spaces.size() ; ++i) f << (i ? "," : "") << "\n  \"" << jsonEscape(spaces[i]) << "\"";
        f << "\n ],\n \"spaces_cut\": [";
        { bool firstCut = true; for(const auto& c : spacesCut){ f << (firstCut ? "" : ",") << "\n  \"" << jsonEscape(c) << "\""; firstCut = false; } }
        f << "\n ],\n \"counters\": {";
        first = true;
        for(const auto& kv : counters){ f << (first ? "" : ",") << "\n  \"" << jsonEscape(kv.first) << "\": " << kv.second; first = false; }
        f << "\n }\n}\n";
    }
};

struct Args {
    std::string mode, tier = "quick", out = "out.json", replay;
    unsigned long slice = 0, nbSlices = 1;
    double deadline = 1e18;
    long seed = 0;
    static Args parse(int argc, char** argv){
        Args a;
        for(int i = 1 ; i < argc ; ++i){
            const std::string k = argv[i];
            auto next = [&](){ return std::string(i+1 < argc ? argv[++i] : ""); };
            if(k == "--mode") a.mode = next();
            else if(k == "--tier") a.tier = next();
            else if(k == "--out") a.out = next();
            else if(k == "--slice") a.slice = std::stoul(next());
            else if(k == "--nslices") a.nbSlices = std::stoul(next());
            else if(k == "--deadline") a.deadline = std::stod(next());
            else if(k == "--deadline-epoch"){ const double e = std::stod(next()); a.deadline = std::max(1.0, e - double(std::time(nullptr))); }   // absolute end of the exploration phase
            else if(k == "--seed") a.seed = std::stol(next());
            else if(k == "--replay") a.replay = next();
        }
        return a;
    }
};


// ---- crash-safe supervision ---------------------------------------------------------------------------------
// A driver's exploration runs in a forked child.  Before every case the child publishes the case (ordinal + text) in
// shared memory.  If the child dies (assertion, signal) or stops making progress (hang), the parent records a
// violation attributed to that case and starts a new child that fast-forwards past it, so the rest of the space is
// still explored.  Fatal outcomes are therefore part of the outcome space, not internal errors.
struct SharedProgress {
    volatile unsigned long ordinal;
    volatile unsigned long evaluations, nontrivial, states, transitions, traces;
    volatile unsigned long heartbeat;
    char caseText[8192];
};

struct Progress {
    SharedProgress* sh = nullptr;
    unsigned long skipUntil = 0;      // cases with ordinal <= skipUntil were already attributed
    unsigned long local = 0;
    // returns false if the case must be skipped (already explored by a previous child, or crashed there)
    bool begin(const std::string& caseText){
        local += 1;
        if(local <= skipUntil) return false;
        if(sh){
            sh->ordinal = local;
            const size_t n = std::min(caseText.size(), sizeof(sh->caseText)-1);
            std::memcpy(sh->caseText, caseText.data(), n); sh->caseText[n] = 0;
            sh->heartbeat += 1;
        }
        return true;
    }
    void publish(const Report& rep){
        if(sh){ sh->evaluations = rep.evaluations; sh->nontrivial = rep.nontrivial; sh->states = rep.states; sh->transitions = rep.transitions; sh->traces = rep.traces; }
    }
};

inline std::string lastLines(const std::string& path, size_t maxChars){
    std::ifstream f(path);
    std::stringstream ss; ss << f.rdbuf();
    std::string s = ss.str();
    if(s.size() > maxChars) s = s.substr(s.size()-maxChars);
    return s;
}

inline std::string crashKey(const std::string& stderrText, int sig){
    // "file.hpp:123: ... Assertion `...' failed."  ->  assert:file.hpp:123
    const size_t a = stderrText.rfind("Assertion `");
    if(a != std::string::npos){
        const size_t lineStart = stderrText.rfind('\n', a);
        const std::string line = stderrText.substr(lineStart == std::string::npos ? 0 : lineStart+1, a - (lineStart == std::string::npos ? 0 : lineStart+1));
        // line = "prog: /path/file.hpp:56: signature: "
        const size_t hpp = line.find(".hpp:");
        if(hpp != std::string::npos){
            const size_t slash = line.rfind('/', hpp);
            size_t end = hpp+5; while(end < line.size() && isdigit((unsigned char)line[end])) ++end;
            return "crash:assert:" + line.substr(slash == std::string::npos ? 0 : slash+1, end - (slash == std::string::npos ? 0 : slash+1));
        }
        return "crash:assert";
    }
    if(stderrText.find("AddressSanitizer") != std::string::npos){
        const std::string tag = "ERROR: AddressSanitizer: ";
        const size_t e = stderrText.find(tag);
        if(e != std::string::npos){
            size_t sp = e + tag.size();
            while(sp < stderrText.size() && (isalnum((unsigned char)stderrText[sp]) || stderrText[sp] == '-' || stderrText[sp] == '_')) ++sp;
            return "crash:asan:" + stderrText.substr(e + tag.size(), sp - (e + tag.size()));
        }
        return "crash:asan";
    }
    if(stderrText.find("runtime error:") != std::string::npos) return "crash:ubsan";
    if(stderrText.find("LeakSanitizer") != std::string::npos) return "crash:leak";
    return "crash:signal-" + std::to_string(sig);
}

// body(rep, progress): explores the slice, calling progress.begin(case) before each case
inline int supervise(const Args& args, const std::string& property, const std::function<void(Report&, Progress&)>& body,
                     const double hangSeconds = 120, const int maxRestarts = 40){
    SharedProgress* sh = static_cast<SharedProgress*>(mmap(nullptr, sizeof(SharedProgress), PROT_READ|PROT_WRITE, MAP_SHARED|MAP_ANONYMOUS, -1, 0));
    std::memset((void*)sh, 0, sizeof(SharedProgress));
    Report total; total.property = property; total.deadlineSeconds = args.deadline;
    unsigned long skipUntil = 0;
    int restarts = 0, hangs = 0;
    const std::string childOut = args.out + ".child", childErr = args.out + ".stderr";
    while(true){
        sh->evaluations = sh->nontrivial = sh->states = sh->transitions = sh->traces = 0;
        ::unlink(childOut.c_str());
        ::unlink((childOut + ".viol").c_str());
        const pid_t pid = fork();
        if(pid == 0){
            const int fd = ::open(childErr.c_str(), O_WRONLY|O_CREAT|O_TRUNC, 0644);
            if(fd >= 0){ dup2(fd, 2); ::close(fd); }
            Report rep; rep.property = property;
            rep.start = total.start; rep.deadlineSeconds = args.deadline;
            rep.sideFile = childOut + ".viol";
            Progress pg; pg.sh = sh; pg.skipUntil = skipUntil;
            body(rep, pg);
            pg.publish(rep);
#if defined(__SANITIZE_ADDRESS__)
            // the child leaves through _exit: run the leak check explicitly (C15)
            if(__lsan_do_recoverable_leak_check()){
                Outcome o; o.add("leak:memory-leaked", "LeakSanitizer reported leaks at the end of the slice (report on stderr of the driver)");
                rep.addOutcome(o, "slice " + std::to_string(args.slice) + " of " + std::to_string(args.nbSlices));
            }
#endif
            rep.write(childOut);
            _exit(0);
        }
        int status = 0; bool hung = false;
        unsigned long lastBeat = sh->heartbeat; auto lastChange = std::chrono::steady_clock::now();
        while(true){
            const pid_t w = waitpid(pid, &status, WNOHANG);
            if(w == pid) break;
            usleep(20000);
            if(sh->heartbeat != lastBeat){ lastBeat = sh->heartbeat; lastChange = std::chrono::steady_clock::now(); }
            else if(std::chrono::duration<double>(std::chrono::steady_clock::now() - lastChange).count() > hangSeconds){
                kill(pid, SIGKILL); waitpid(pid, &status, 0); hung = true; break;
            }
        }
        if(!hung && WIFEXITED(status) && WEXITSTATUS(status) == 0){
            // merge the child's report
            std::ifstream f(childOut);
            if(!f){ std::cerr << "child wrote no report\n"; return 3; }
            // the child report is merged by re-reading its JSON in the parent is overkill: the child wrote it, so we
            // keep the last child's report file as the slice report and add the crash records of earlier children to it.
            break;
        }
        // crash or hang: attribute to the published case
        const int sig = hung ? SIGKILL : (WIFSIGNALED(status) ? WTERMSIG(status) : 1000 + WEXITSTATUS(status));
        const std::string err = lastLines(childErr, 60000);
        const std::string key = hung ? std::string("hang:no-progress") : crashKey(err, sig);
        std::string detail = err;
        { const size_t a = detail.rfind("Assertion `"); if(a != std::string::npos) detail = detail.substr(a); }
        { const size_t a = detail.find("ERROR: AddressSanitizer"); if(a != std::string::npos) detail = detail.substr(a, 900); }
        { const size_t a = detail.find("runtime error:"); if(a != std::string::npos) detail = detail.substr(a > 200 ? a-200 : 0, 900); }
        if(detail.size() > 900) detail = detail.substr(detail.size()-900);
        Outcome o; o.add(key, detail);
        total.addOutcome(o, std::string(sh->caseText));
        total.mergeSideFile(childOut + ".viol");
        total.evaluations += sh->evaluations + 1; total.nontrivial += sh->nontrivial;
        total.states += sh->states; total.transitions += sh->transitions; total.traces += sh->traces;
        skipUntil = sh->ordinal;
        restarts += 1;
        if(hung) hangs += 1;
        if(restarts > maxRestarts || hangs >= 2 || total.timeUp()){ total.exhaustive = false; Report r2 = total; r2.write(args.out); return 0; }
    }
    // final: combine `total` (crash records, counts of crashed children) with the last child's report
    {
        std::ifstream f(childOut); std::stringstream ss; ss << f.rdbuf();
        std::ofstream o(args.out);
        o << "{\"merge\": [" << ss.str() << ",\n";
        o.close();
        total.write(args.out + ".crashes");
        std::ifstream c(args.out + ".crashes"); std::stringstream cs; cs << c.rdbuf();
        std::ofstream o2(args.out, std::ios::app);
        o2 << cs.str() << "]}\n";
    }
    ::unlink(childOut.c_str()); ::unlink((args.out + ".crashes").c_str()); ::unlink((childOut + ".viol").c_str());
    return 0;
}

// parse the textual form produced by Spec::str()
inline Spec parseSpec(const std::string& text){
    Spec s;
    std::istringstream in(text);
    std::string tok;
    auto parseParts = [&](const std::string& v, std::vector<Particle>& out){
        std::istringstream ps(v); std::string one;
        while(std::getline(ps, one, ';')){
            if(one.empty()) continue;
            Particle p; p.lat = vref::zeroCoord();
            std::istringstream cs(one); std::string c; int d = 0;
            while(std::getline(cs, c, ',') && d < 4){
                size_t pos = c.find_first_of("+-", 1);
                // a leading '-' cannot happen (lattice >= 0)
                std::string num = c.substr(0, pos);
                p.lat[d] = std::stol(num);
                if(pos != std::string::npos){
                    const int sign = c[pos] == '+' ? 1 : -1;
                    p.nudge[d] = sign * std::stoi(c.substr(pos+2));
                }
                ++d;
            }
            out.push_back(p);
        }
    };
    while(in >> tok){
        const size_t eq = tok.find('=');
        if(eq == std::string::npos) continue;
        const std::string k = tok.substr(0, eq), v = tok.substr(eq+1);
        if(k == "dim") s.dim = std::stoi(v);
        else if(k == "h") s.height = std::stoi(v);
        else if(k == "bs") s.blockSize = std::stol(v);
        else if(k == "env") s.envBlock = std::stoi(v);
        else if(k == "ogpp") s.oneGroupPerParent = std::stoi(v) != 0;
        else if(k == "up") s.upperLevel = std::stol(v);
        else if(k == "box"){
            const size_t bar = v.find('|');
            std::istringstream c1(v.substr(1, bar-1)), c2(v.substr(bar+1, v.size()-bar-2));
            std::string x; int d = 0;
            while(std::getline(c1, x, ',') && d < 4) s.centre[d++] = std::stod(x);
            d = 0;
            while(std::getline(c2, x, ',') && d < 4) s.widths[d++] = std::stod(x);
        }
        else if(k == "parts") parseParts(v, s.parts);
        else if(k == "src") parseParts(v, s.srcParts);
    }
    return s;
}

} // namespace vf

#endif
