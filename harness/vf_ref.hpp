// Reference geometry of the grid hierarchy, written from the definitions.
// Shares no code with the library.  Dimension is a run-time parameter (<= 4).
#ifndef VF_REF_HPP
#define VF_REF_HPP

#include <array>
#include <vector>
#include <cstdint>
#include <cstdlib>
#include <algorithm>
#include <set>
#include <string>

namespace vref {

constexpr int MaxDim = 4;
using Coord = std::array<long, MaxDim>;

inline Coord zeroCoord(){ Coord c; c.fill(0); return c; }

// Convention consumed by the shipped kernels (FRotationKernel.hpp:322-324):
// inside every group of `dim` bits, dimension 0 is the most significant one,
// i.e. bit (dim-1-d) of a child code is the low bit of coordinate d.
inline long morton(const Coord& c, const int dim, const int nbBits){
    unsigned long idx = 0;
    for(int b = 0 ; b < nbBits ; ++b){
        for(int d = 0 ; d < dim ; ++d){
            const unsigned long bit = (static_cast<unsigned long>(c[d]) >> b) & 1UL;
            idx |= bit << (b*dim + (dim-1-d));
        }
    }
    return static_cast<long>(idx);
}

inline Coord unmorton(const long inIdx, const int dim, const int nbBits){
    Coord c = zeroCoord();
    const unsigned long idx = static_cast<unsigned long>(inIdx);
    for(int b = 0 ; b < nbBits ; ++b){
        for(int d = 0 ; d < dim ; ++d){
            const unsigned long bit = (idx >> (b*dim + (dim-1-d))) & 1UL;
            c[d] |= static_cast<long>(bit << b);
        }
    }
    return c;
}

inline Coord parentCoord(const Coord& c, const int dim){
    Coord p = zeroCoord();
    for(int d = 0 ; d < dim ; ++d) p[d] = c[d] >> 1;
    return p;
}

// octant of a cell inside its parent, same bit convention as above
inline long octant(const Coord& c, const int dim){
    long code = 0;
    for(int d = 0 ; d < dim ; ++d) code |= (c[d] & 1L) << (dim-1-d);
    return code;
}

inline long chebyshev(const Coord& a, const Coord& b, const int dim){
    long m = 0;
    for(int d = 0 ; d < dim ; ++d) m = std::max(m, std::labs(a[d]-b[d]));
    return m;
}

inline long ipow(long b, int e){ long r = 1; while(e-- > 0) r *= b; return r; }

// base-7 (transfer) and base-3 (neighbour) relative-offset codes: dimension 0
// is the most significant digit, digit = offset + 3 (resp. + 1)
inline long relCode(const Coord& off, const int dim, const long base){
    const long half = base/2;
    long code = 0;
    for(int d = 0 ; d < dim ; ++d){ code = code*base + (off[d] + half); }
    return code;
}
inline Coord relDecode(long code, const int dim, const long base){
    const long half = base/2;
    Coord off = zeroCoord();
    for(int d = dim-1 ; d >= 0 ; --d){ off[d] = (code % base) - half; code /= base; }
    return off;
}

struct RelCell {            // a member of a neighbour / interaction list
    Coord coord;            // coordinates inside the box (wrapped when periodic)
    Coord offset;           // true (unwrapped) relative offset  source - target
    bool operator<(const RelCell& o) const {
        if(coord != o.coord) return coord < o.coord;
        return offset < o.offset;
    }
    bool operator==(const RelCell& o) const { return coord == o.coord && offset == o.offset; }
};

// Adjacent cells of c at a level with `limit` cells per dimension
// (Chebyshev distance 1; clipped at the box, wrapped when periodic).
inline std::vector<RelCell> neighbours(const Coord& c, const int dim, const long limit, const bool periodic){
    std::vector<RelCell> res;
    const long nb = ipow(3, dim);
    for(long k = 0 ; k < nb ; ++k){
        Coord off = relDecode(k, dim, 3);
        bool self = true;
        for(int d = 0 ; d < dim ; ++d) if(off[d]) self = false;
        if(self) continue;
        RelCell r; r.offset = off; r.coord = zeroCoord();
        bool inside = true;
        for(int d = 0 ; d < dim ; ++d){
            long v = c[d] + off[d];
            if(v < 0 || v >= limit){
                if(periodic) v = ((v % limit) + limit) % limit;
                else inside = false;
            }
            r.coord[d] = v;
        }
        if(inside) res.push_back(r);
    }
    std::sort(res.begin(), res.end());
    return res;
}

// Interaction list: children of the parent's neighbours (and of the parent)
// that are not adjacent to c.   level >= 1, limit = 2^level.
inline std::vector<RelCell> interactions(const Coord& c, const int dim, const int level, const bool periodic){
    std::vector<RelCell> res;
    if(level < 1) return res;
    const long limit = 1L << level;
    // every offset in [-3,3]^dim whose parent is within distance 1 of c's parent
    const long nb = ipow(7, dim);
    const Coord pc = parentCoord(c, dim);
    for(long k = 0 ; k < nb ; ++k){
        Coord off = relDecode(k, dim, 7);
        long cheb = 0;
        bool parentClose = true;
        bool inside = true;
        RelCell r; r.offset = off; r.coord = zeroCoord();
        for(int d = 0 ; d < dim ; ++d){
            cheb = std::max(cheb, std::labs(off[d]));
            const long v = c[d] + off[d];
            // floor division by 2 of the unwrapped coordinate
            const long pv = (v >= 0 ? v/2 : -((-v+1)/2));
            if(std::labs(pv - pc[d]) > 1) parentClose = false;
            long w = v;
            if(v < 0 || v >= limit){
                if(periodic) w = ((v % limit) + limit) % limit;
                else inside = false;
            }
            r.coord[d] = w;
        }
        if(cheb >= 2 && parentClose && inside) res.push_back(r);
    }
    std::sort(res.begin(), res.end());
    return res;
}

// Reference tree: occupied leaves -> ancestor closure, one sorted index vector per level.
struct RefTree {
    int dim = 0;
    int height = 0;
    std::vector<std::vector<long>> levels;     // levels[l] = sorted morton indices of existing cells

    RefTree() = default;
    RefTree(const int inDim, const int inHeight, const std::vector<Coord>& leafCoords) : dim(inDim), height(inHeight){
        levels.resize(height);
        if(height == 0) return;
        std::set<std::vector<long>> cur;
        for(const auto& c : leafCoords){ cur.insert(std::vector<long>(c.begin(), c.begin()+dim)); }
        for(int l = height-1 ; l >= 0 ; --l){
            std::set<std::vector<long>> up;
            for(const auto& v : cur){
                Coord c = zeroCoord();
                for(int d = 0 ; d < dim ; ++d) c[d] = v[d];
                levels[l].push_back(morton(c, dim, l));
                std::vector<long> p(dim);
                for(int d = 0 ; d < dim ; ++d) p[d] = v[d] >> 1;
                up.insert(p);
            }
            std::sort(levels[l].begin(), levels[l].end());
            cur.swap(up);
        }
    }
    bool has(const int level, const long idx) const {
        return std::binary_search(levels[level].begin(), levels[level].end(), idx);
    }
};

inline std::string coordStr(const Coord& c, const int dim){
    std::string s = "(";
    for(int d = 0 ; d < dim ; ++d){ if(d) s += ","; s += std::to_string(c[d]); }
    return s + ")";
}

} // namespace vref

#endif
