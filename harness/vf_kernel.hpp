// Exact, additive verification kernel (provenance + degree-2 polynomial FMM).
//
//   K(x,y) = |x-y|^2  has an FMM that is exact at order 2.  All arithmetic is in
//   the ring Z/2^64 (unsigned wrap-around), in lattice units of (leaf width)/4,
//   so there is no rounding and no UB.  One slot per source particle id (mod K).
//
//   multipole about c :  M0 = sum q, M1 = sum q (x-c), M2 = sum q |x-c|^2
//   local about t     :  phi(y) = L0 + L1.(y-t) + L2 |y-t|^2
//
// The kernel derives every shift ONLY from the arguments the library hands over
// (level, child code, relative-offset code, leaf header boxCoord), so the final
// value is the exact direct sum iff all of them were geometrically right and
// every pair was taken exactly once.  It also checks per-call predicates (C02)
// and keeps an order-insensitive digest of elementary interactions (C08/C12/C18).
#ifndef VF_KERNEL_HPP
#define VF_KERNEL_HPP

#include "vf_ref.hpp"

#include <cstdint>
#include <cstring>
#include <cmath>
#include <map>
#include <string>
#include <vector>
#include <array>

namespace vf {

using u64 = std::uint64_t;
using vref::Coord;

inline u64 mix64(u64 x){
    x += 0x9e3779b97f4a7c15ULL;
    x = (x ^ (x >> 30)) * 0xbf58476d1ce4e5b9ULL;
    x = (x ^ (x >> 27)) * 0x94d049bb133111ebULL;
    return x ^ (x >> 31);
}
inline u64 hcomb(u64 h, u64 v){ return mix64(h ^ mix64(v)); }

enum Op { OpP2M = 0, OpM2M, OpM2L, OpL2L, OpL2P, OpP2P, OpP2PInner, OpP2PTsm, OpCount };
inline const char* opName(int o){
    static const char* n[] = {"P2M","M2M","M2L","L2L","L2P","P2P","P2PInner","P2PTsm"};
    return n[o];
}

// Per-case context shared by all kernel copies (set by the harness before a run).
struct Ctx {
    int dim = 3;
    int height = 1;                 // height of the real tree
    bool periodic = false;
    bool checkArgs = true;          // per-call predicates (C02)
    bool checkGeometryTags = true;  // tags are coordinates from the library headers; false for orderings whose
                                    // geometry is a known finding and when only multiplicities are claimed
    int nbDataChecked = 0;          // number of data values compared bitwise with the inserted ones
    // particle tables indexed by original index (targets == sources for a single tree)
    const std::vector<Coord>* latSrc = nullptr;
    const std::vector<Coord>* latTgt = nullptr;
    const std::vector<std::array<double,8>>* dataSrc = nullptr;
    const std::vector<std::array<double,8>>* dataTgt = nullptr;

    // outputs
    u64 logDigest = 0;                       // order-insensitive multiset digest of elementary interactions
    std::array<long, OpCount> calls{};       // operator calls
    std::array<long, OpCount> elems{};       // elementary interactions
    long minLevelSeen = 1000, maxLevelSeen = -1000;
    std::map<std::string, std::string> violations;   // key -> first detail
    // current task observation (E3)
    const void* lastKernelThis = nullptr;
    u64 taskDigest = 0;

    void reset(){
        logDigest = 0; calls.fill(0); elems.fill(0); violations.clear();
        minLevelSeen = 1000; maxLevelSeen = -1000; lastKernelThis = nullptr; taskDigest = 0;
    }
    void violation(const std::string& key, const std::string& detail){
        if(violations.find(key) == violations.end()) violations[key] = detail;
    }
    void logElem(int op, long level, u64 tgt, u64 src, long code){
        u64 h = hcomb(hcomb(hcomb(hcomb(u64(op)+1, u64(level)), tgt), src), u64(code));
        logDigest += h;
        taskDigest += h;
        elems[op] += 1;
    }
};

inline Ctx*& ctxPtr(){ static Ctx* p = nullptr; return p; }
inline Ctx& ctx(){ return *ctxPtr(); }

template <int Dim, int K>
struct VMultipole {
    u64 m0[K];
    u64 m1[K][Dim];
    u64 m2[K];
    long tagSet;            // 0x7a6 when tagged
    long tagLevel;
    long tagCoord[Dim];
};

template <int Dim, int K>
struct VLocal {
    u64 l0[K];
    u64 l1[K][Dim];
    u64 l2[K];
    long tagSet;
    long tagLevel;
    long tagCoord[Dim];
    u64 sizeDiffersFromMultipole[3];   // multipole and local buffers of a group must not have the same size (buffer mix-ups would go unnoticed)
};

constexpr long TagMagic = 0x7a6;

inline u64 coordHash(const long* c, int dim){
    u64 h = 0x1234;
    for(int d = 0 ; d < dim ; ++d) h = hcomb(h, u64(c[d]));
    return h;
}

template <class RealType_T, class SpaceIndexType_T, int K_T>
class VKernel {
public:
    using RealType = RealType_T;
    using SpaceIndexType = SpaceIndexType_T;
    static constexpr int Dim = int(SpaceIndexType::Dim);
    static constexpr int K = K_T;
    using SpacialConfiguration = TbfSpacialConfiguration<RealType, SpaceIndexType::Dim>;
    using Multipole = VMultipole<Dim, K>;
    using Local = VLocal<Dim, K>;
    static constexpr int NbRhs = 2*K;      // rows [0,K): count channel, rows [K,2K): phi channel

private:
    long treeHeightCfg;          // height of the configuration this kernel was built from
    bool latticeMismatch = false; // the configuration's box is not a whole, equal number of lattice units in every dimension
    u64 boxLattice;              // width of that configuration's box in lattice units (same in every dimension)

    // cell width at a level of this kernel's configuration, lattice units
    u64 widthAt(const long level) const {
        if(level < 0 || level > 62) return 0;
        return boxLattice >> level;
    }
    // false for the kernel of the periodic top tree (built from the extended configuration)
    bool isRealTree(const Ctx& cx) const { return boxLattice == (u64(4) << (cx.height-1)); }

public:
    static double& unitOf(int d){ static double u[4] = {1,1,1,1}; return u[d]; }   // real length of one lattice unit per dimension

    explicit VKernel(const SpacialConfiguration& inConfiguration)
        : treeHeightCfg(inConfiguration.getTreeHeight()){
        const double w = double(inConfiguration.getBoxWidths()[0]) / unitOf(0);
        boxLattice = u64(std::llround(w));
        // every dimension must span the same number of lattice units (units are per dimension), and a whole number of them
        latticeMismatch = false;
        for(int d = 0 ; d < Dim ; ++d){
            const double wd = double(inConfiguration.getBoxWidths()[d]) / unitOf(d);
            if(u64(std::llround(wd)) != boxLattice || std::fabs(wd - double(boxLattice)) > 1e-6 * double(boxLattice)) latticeMismatch = true;
        }
    }
    VKernel(const VKernel&) = default;
    VKernel& operator=(const VKernel&) = default;

    u64 getBoxLattice() const { return boxLattice; }

    //////////////////////////////////////////////////////////////////////////

    template <class SymbData, class ParticlesClass>
    void checkParticles(const char* opname, const SymbData& symb, const long int idxs[], const ParticlesClass& parts,
                        const long nb, const bool isSource) const {
        Ctx& cx = ctx();
        if(!cx.checkArgs) return;
        const auto& lat = isSource ? *cx.latSrc : *cx.latTgt;
        const auto& dat = isSource ? *cx.dataSrc : *cx.dataTgt;
        if(nb <= 0){ cx.violation(std::string(opname)+":empty-leaf", "operator called with nbParticles <= 0"); }
        for(long p = 0 ; p < nb ; ++p){
            const long id = idxs[p];
            if(id < 0 || id >= long(lat.size())){
                cx.violation(std::string(opname)+":particle-index-range", "index " + std::to_string(id));
                continue;
            }
            for(int v = 0 ; v < cx.nbDataChecked && v < int(std::tuple_size<ParticlesClass>::value) ; ++v){
                const double got = double(parts[v][p]);
                if(std::memcmp(&got, &dat[id][v], sizeof(double)) != 0){
                    cx.violation(std::string(opname)+":particle-data-bits", "particle " + std::to_string(id) + " value " + std::to_string(v));
                }
            }
            // closed leaf box in lattice units: [4*c, 4*c+4]
            for(int d = 0 ; d < Dim ; ++d){
                const long lo = 4*symb.boxCoord[d], hi = lo + 4;
                if(lat[id][d] < lo || lat[id][d] > hi){
                    cx.violation(std::string(opname)+":particle-outside-leaf", "particle " + std::to_string(id) + " lattice "
                                 + std::to_string(lat[id][d]) + " leaf coord " + std::to_string(symb.boxCoord[d]) + " dim " + std::to_string(d));
                }
            }
        }
    }

    template <class CellSymbolicData, class ParticlesClass, class LeafClass>
    void P2M(const CellSymbolicData& symb, const long int particlesIndexes[],
             const ParticlesClass& inParticles, const long int inNbParticles, LeafClass& leaf) {
        Ctx& cx = ctx();
        cx.lastKernelThis = this;
        cx.calls[OpP2M] += 1;
        checkParticles("P2M", symb, particlesIndexes, inParticles, inNbParticles, true);
        if(cx.checkArgs && leaf.tagSet == TagMagic){
            if(leaf.tagLevel != cx.height-1) cx.violation("P2M:leaf-level", "tag level " + std::to_string(leaf.tagLevel));
            for(int d = 0 ; d < Dim ; ++d) if(leaf.tagCoord[d] != symb.boxCoord[d]) cx.violation("P2M:leaf-mismatch", "multipole of another cell");
        }
        const auto& lat = *cx.latSrc;
        for(long p = 0 ; p < inNbParticles ; ++p){
            const long id = particlesIndexes[p];
            if(id < 0 || id >= long(lat.size())) continue;
            const int s = int(id % K);
            leaf.m0[s] += 1;
            u64 n2 = 0;
            for(int d = 0 ; d < Dim ; ++d){
                const u64 r = u64(lat[id][d]) - u64(4*symb.boxCoord[d] + 2);
                leaf.m1[s][d] += r;
                n2 += r*r;
            }
            leaf.m2[s] += n2;
            cx.logElem(OpP2M, cx.height-1, coordHash(symb.boxCoord.data(), Dim), u64(id), 0);
        }
    }

    template <class CellSymbolicData, class CellClassContainer, class CellClass>
    void M2M(const CellSymbolicData& symb, const long int inLevel, const CellClassContainer& inLowerCell,
             CellClass& upper, const long int childrenPos[], const long int inNbChildren) {
        Ctx& cx = ctx();
        cx.lastKernelThis = this;
        cx.calls[OpM2M] += 1;
        cx.minLevelSeen = std::min(cx.minLevelSeen, long(inLevel)); cx.maxLevelSeen = std::max(cx.maxLevelSeen, long(inLevel));
        if(cx.checkArgs && inNbChildren <= 0) cx.violation("M2M:empty", "no child");
        if(cx.checkArgs && latticeMismatch) cx.violation("M2M:kernel-configuration-box", "the configuration the kernel was built from does not have the widths of a (repeated) simulation box");
        const u64 half = widthAt(inLevel+1) >> 1;      // distance child centre - parent centre per dimension
        if(cx.checkArgs && (widthAt(inLevel+1) & 1)) cx.violation("M2M:level-range", "level " + std::to_string(inLevel));
        const bool realLevel = isRealTree(cx);
        unsigned long seen = 0;
        for(long c = 0 ; c < inNbChildren ; ++c){
            const auto& child = inLowerCell[c].get();
            const long code = childrenPos[c];
            if(cx.checkArgs){
                if(code < 0 || code >= (1L << Dim)){ cx.violation("M2M:child-code-range", std::to_string(code)); continue; }
                if(seen & (1UL << code)) cx.violation("M2M:child-duplicate", "code " + std::to_string(code) + " twice");
                seen |= (1UL << code);
                if(realLevel && cx.checkGeometryTags && child.tagSet == TagMagic && upper.tagSet == TagMagic){
                    if(child.tagLevel != inLevel+1 || upper.tagLevel != inLevel)
                        cx.violation("M2M:level", "level arg " + std::to_string(inLevel) + " parent tag " + std::to_string(upper.tagLevel) + " child tag " + std::to_string(child.tagLevel));
                    for(int d = 0 ; d < Dim ; ++d){
                        if((child.tagCoord[d] >> 1) != upper.tagCoord[d]) cx.violation("M2M:not-a-child", "child not inside parent");
                        if(((code >> (Dim-1-d)) & 1L) != (child.tagCoord[d] & 1L)) cx.violation("M2M:child-code-octant", "code " + std::to_string(code) + " vs coord");
                        if(upper.tagCoord[d] != symb.boxCoord[d]) cx.violation("M2M:parent-mismatch", "symbolic data of another cell");
                    }
                }
            }
            u64 dvec[Dim]; u64 d2 = 0;
            for(int d = 0 ; d < Dim ; ++d){
                dvec[d] = ((code >> (Dim-1-d)) & 1L) ? half : (u64(0) - half);
                d2 += dvec[d]*dvec[d];
            }
            for(int s = 0 ; s < K ; ++s){
                u64 dot = 0;
                for(int d = 0 ; d < Dim ; ++d){
                    upper.m1[s][d] += child.m1[s][d] + child.m0[s]*dvec[d];
                    dot += dvec[d]*child.m1[s][d];
                }
                upper.m2[s] += child.m2[s] + 2*dot + child.m0[s]*d2;
                upper.m0[s] += child.m0[s];
            }
            cx.logElem(OpM2M, inLevel, coordHash(symb.boxCoord.data(), Dim), coordHash(child.tagCoord, Dim), code);
        }
    }

    template <class CellSymbolicData, class CellClassContainer, class CellClass>
    void M2L(const CellSymbolicData& symb, const long int inLevel, const CellClassContainer& inInteractingCells,
             const long int neighPos[], const long int inNbNeighbors, CellClass& target) {
        Ctx& cx = ctx();
        cx.lastKernelThis = this;
        cx.calls[OpM2L] += 1;
        cx.minLevelSeen = std::min(cx.minLevelSeen, long(inLevel)); cx.maxLevelSeen = std::max(cx.maxLevelSeen, long(inLevel));
        if(cx.checkArgs && inNbNeighbors <= 0) cx.violation("M2L:empty", "no source");
        if(cx.checkArgs && latticeMismatch) cx.violation("M2L:kernel-configuration-box", "the configuration the kernel was built from does not have the widths of a (repeated) simulation box");
        const u64 w = widthAt(inLevel);
        const bool realLevel = isRealTree(cx);
        const long limit = 1L << inLevel;
        for(long n = 0 ; n < inNbNeighbors ; ++n){
            const auto& src = inInteractingCells[n].get();
            const long code = neighPos[n];
            if(cx.checkArgs && (code < 0 || code >= vref::ipow(7, Dim))){ cx.violation("M2L:code-range", std::to_string(code)); continue; }
            const Coord rel = vref::relDecode(code, Dim, 7);
            if(cx.checkArgs){
                long cheb = 0;
                for(int d = 0 ; d < Dim ; ++d) cheb = std::max(cheb, std::labs(rel[d]));
                if(cheb < 2) cx.violation("M2L:not-separated", "offset code " + std::to_string(code));
                if(realLevel && cx.checkGeometryTags && src.tagSet == TagMagic && target.tagSet == TagMagic){
                    if(src.tagLevel != inLevel || target.tagLevel != inLevel)
                        cx.violation("M2L:level", "level arg " + std::to_string(inLevel) + " tags " + std::to_string(src.tagLevel) + "/" + std::to_string(target.tagLevel));
                    for(int d = 0 ; d < Dim ; ++d){
                        long diff = src.tagCoord[d] - (target.tagCoord[d] + rel[d]);
                        if(cx.periodic) diff = ((diff % limit) + limit) % limit;
                        if(diff != 0) cx.violation("M2L:offset-code", "source not at target+decode(code)");
                        if(target.tagCoord[d] != symb.boxCoord[d]) cx.violation("M2L:target-mismatch", "symbolic data of another cell");
                        // parents must be adjacent (or equal): it is an interaction-list member
                        const long v = target.tagCoord[d] + rel[d];
                        const long pv = (v >= 0 ? v/2 : -((-v+1)/2));
                        if(std::labs(pv - (target.tagCoord[d] >> 1)) > 1) cx.violation("M2L:parents-not-adjacent", "offset code " + std::to_string(code));
                    }
                }
            }
            // D = t - c = -(rel * w)
            u64 D[Dim]; u64 D2 = 0;
            for(int d = 0 ; d < Dim ; ++d){ D[d] = u64(0) - u64(rel[d])*w; D2 += D[d]*D[d]; }
            for(int s = 0 ; s < K ; ++s){
                u64 dot = 0;
                for(int d = 0 ; d < Dim ; ++d){
                    target.l1[s][d] += 2*(src.m0[s]*D[d] - src.m1[s][d]);
                    dot += D[d]*src.m1[s][d];
                }
                target.l0[s] += src.m0[s]*D2 - 2*dot + src.m2[s];
                target.l2[s] += src.m0[s];
            }
            cx.logElem(OpM2L, inLevel, coordHash(symb.boxCoord.data(), Dim), coordHash(src.tagCoord, Dim), code);
        }
    }

    template <class CellSymbolicData, class CellClass, class CellClassContainer>
    void L2L(const CellSymbolicData& symb, const long int inLevel, const CellClass& upper,
             CellClassContainer& inOutLowerCell, const long int childrenPos[], const long int inNbChildren) {
        Ctx& cx = ctx();
        cx.lastKernelThis = this;
        cx.calls[OpL2L] += 1;
        cx.minLevelSeen = std::min(cx.minLevelSeen, long(inLevel)); cx.maxLevelSeen = std::max(cx.maxLevelSeen, long(inLevel));
        if(cx.checkArgs && inNbChildren <= 0) cx.violation("L2L:empty", "no child");
        const u64 half = widthAt(inLevel+1) >> 1;
        const bool realLevel = isRealTree(cx);
        unsigned long seen = 0;
        for(long c = 0 ; c < inNbChildren ; ++c){
            auto& child = inOutLowerCell[c].get();
            const long code = childrenPos[c];
            if(cx.checkArgs){
                if(code < 0 || code >= (1L << Dim)){ cx.violation("L2L:child-code-range", std::to_string(code)); continue; }
                if(seen & (1UL << code)) cx.violation("L2L:child-duplicate", "code " + std::to_string(code) + " twice");
                seen |= (1UL << code);
                if(realLevel && cx.checkGeometryTags && child.tagSet == TagMagic && upper.tagSet == TagMagic){
                    if(child.tagLevel != inLevel+1 || upper.tagLevel != inLevel)
                        cx.violation("L2L:level", "level arg " + std::to_string(inLevel) + " parent tag " + std::to_string(upper.tagLevel) + " child tag " + std::to_string(child.tagLevel));
                    for(int d = 0 ; d < Dim ; ++d){
                        if((child.tagCoord[d] >> 1) != upper.tagCoord[d]) cx.violation("L2L:not-a-child", "child not inside parent");
                        if(((code >> (Dim-1-d)) & 1L) != (child.tagCoord[d] & 1L)) cx.violation("L2L:child-code-octant", "code " + std::to_string(code) + " vs coord");
                        if(upper.tagCoord[d] != symb.boxCoord[d]) cx.violation("L2L:parent-mismatch", "symbolic data of another cell");
                    }
                }
            }
            u64 e[Dim]; u64 e2 = 0;
            for(int d = 0 ; d < Dim ; ++d){
                e[d] = ((code >> (Dim-1-d)) & 1L) ? half : (u64(0) - half);
                e2 += e[d]*e[d];
            }
            for(int s = 0 ; s < K ; ++s){
                u64 dot = 0;
                for(int d = 0 ; d < Dim ; ++d){
                    dot += upper.l1[s][d]*e[d];
                    child.l1[s][d] += upper.l1[s][d] + 2*upper.l2[s]*e[d];
                }
                child.l0[s] += upper.l0[s] + dot + upper.l2[s]*e2;
                child.l2[s] += upper.l2[s];
            }
            cx.logElem(OpL2L, inLevel, coordHash(symb.boxCoord.data(), Dim), coordHash(child.tagCoord, Dim), code);
        }
    }

    template <class CellSymbolicData, class LeafClass, class ParticlesClassValues, class ParticlesClassRhs>
    void L2P(const CellSymbolicData& symb, const LeafClass& leaf, const long int particlesIndexes[],
             const ParticlesClassValues& inParticles, ParticlesClassRhs& rhs, const long int inNbParticles) {
        Ctx& cx = ctx();
        cx.lastKernelThis = this;
        cx.calls[OpL2P] += 1;
        checkParticles("L2P", symb, particlesIndexes, inParticles, inNbParticles, false);
        if(cx.checkArgs && leaf.tagSet == TagMagic){
            if(leaf.tagLevel != cx.height-1) cx.violation("L2P:leaf-level", "tag level " + std::to_string(leaf.tagLevel));
            for(int d = 0 ; d < Dim ; ++d) if(leaf.tagCoord[d] != symb.boxCoord[d]) cx.violation("L2P:leaf-mismatch", "local of another cell");
        }
        const auto& lat = *cx.latTgt;
        for(long p = 0 ; p < inNbParticles ; ++p){
            const long id = particlesIndexes[p];
            if(id < 0 || id >= long(lat.size())) continue;
            u64 y[Dim]; u64 y2 = 0;
            for(int d = 0 ; d < Dim ; ++d){ y[d] = u64(lat[id][d]) - u64(4*symb.boxCoord[d] + 2); y2 += y[d]*y[d]; }
            for(int s = 0 ; s < K ; ++s){
                u64 dot = 0;
                for(int d = 0 ; d < Dim ; ++d) dot += leaf.l1[s][d]*y[d];
                rhs[s][p] += leaf.l2[s];
                rhs[K+s][p] += leaf.l0[s] + dot + leaf.l2[s]*y2;
            }
            cx.logElem(OpL2P, cx.height-1, coordHash(symb.boxCoord.data(), Dim), u64(id), 0);
        }
    }

    // offset (in leaves) to add to the source positions so that they sit where the code says
    template <class SymbSrc, class SymbTgt>
    bool p2pShift(const char* opname, const SymbSrc& symbSrc, const SymbTgt& symbTgt, const long code, const bool allowSelf, long shiftLeaves[]) const {
        Ctx& cx = ctx();
        const long limit = 1L << (cx.height-1);
        if(code < 0 || code >= vref::ipow(3, Dim)){ if(cx.checkArgs) cx.violation(std::string(opname)+":code-range", std::to_string(code)); for(int d=0;d<Dim;++d) shiftLeaves[d]=0; return false; }
        const Coord rel = vref::relDecode(code, Dim, 3);
        bool self = true;
        for(int d = 0 ; d < Dim ; ++d){
            if(rel[d]) self = false;
            const long diff = (symbTgt.boxCoord[d] + rel[d]) - symbSrc.boxCoord[d];    // where the code says minus where the header says
            shiftLeaves[d] = diff;
            if(cx.checkArgs){
                if(cx.periodic){
                    if(((diff % limit) + limit) % limit != 0) cx.violation(std::string(opname)+":offset-code", "source leaf not at target+decode(code) modulo the box");
                }
                else if(diff != 0){
                    cx.violation(std::string(opname)+":offset-code", "source leaf not at target+decode(code)");
                }
            }
        }
        if(cx.checkArgs && self && !allowSelf) cx.violation(std::string(opname)+":self-code", "central code in a neighbour call");
        return true;
    }

    template <class LeafSymbolicData, class ParticlesClassValues, class ParticlesClassRhs>
    void P2P(const LeafSymbolicData& symbSrc, const long int srcIndexes[],
             const ParticlesClassValues& srcParticles, ParticlesClassRhs& srcRhs, const long int nbSrc,
             const LeafSymbolicData& symbTgt, const long int tgtIndexes[],
             const ParticlesClassValues& tgtParticles, ParticlesClassRhs& tgtRhs, const long int nbTgt,
             const long arrayIndexSrc) {
        Ctx& cx = ctx();
        cx.lastKernelThis = this;
        cx.calls[OpP2P] += 1;
        checkParticles("P2P", symbSrc, srcIndexes, srcParticles, nbSrc, false);
        checkParticles("P2P", symbTgt, tgtIndexes, tgtParticles, nbTgt, false);
        long shift[Dim];
        p2pShift("P2P", symbSrc, symbTgt, arrayIndexSrc, false, shift);
        const auto& lat = *cx.latTgt;      // single tree: same table
        for(long i = 0 ; i < nbTgt ; ++i){
            const long it = tgtIndexes[i];
            if(it < 0 || it >= long(lat.size())) continue;
            for(long j = 0 ; j < nbSrc ; ++j){
                const long js = srcIndexes[j];
                if(js < 0 || js >= long(lat.size())) continue;
                u64 r2 = 0;
                for(int d = 0 ; d < Dim ; ++d){ const u64 r = u64(lat[it][d]) - (u64(lat[js][d]) + u64(4*shift[d])); r2 += r*r; }
                tgtRhs[js % K][i] += 1;  tgtRhs[K + (js % K)][i] += r2;
                srcRhs[it % K][j] += 1;  srcRhs[K + (it % K)][j] += r2;
            }
        }
        cx.logElem(OpP2P, cx.height-1, coordHash(symbTgt.boxCoord.data(), Dim), coordHash(symbSrc.boxCoord.data(), Dim), arrayIndexSrc);
    }

    template <class LeafSymbolicDataSource, class ParticlesClassValuesSource, class LeafSymbolicDataTarget, class ParticlesClassValuesTarget, class ParticlesClassRhs>
    void P2PTsm(const LeafSymbolicDataSource& symbSrc, const long int srcIndexes[],
                const ParticlesClassValuesSource& srcParticles, const long int nbSrc,
                const LeafSymbolicDataTarget& symbTgt, const long int tgtIndexes[],
                const ParticlesClassValuesTarget& tgtParticles, ParticlesClassRhs& tgtRhs, const long int nbTgt,
                const long arrayIndexSrc) {
        Ctx& cx = ctx();
        cx.lastKernelThis = this;
        cx.calls[OpP2PTsm] += 1;
        checkParticles("P2PTsm", symbSrc, srcIndexes, srcParticles, nbSrc, true);
        checkParticles("P2PTsm", symbTgt, tgtIndexes, tgtParticles, nbTgt, false);
        long shift[Dim];
        p2pShift("P2PTsm", symbSrc, symbTgt, arrayIndexSrc, true, shift);
        const auto& latS = *cx.latSrc;
        const auto& latT = *cx.latTgt;
        for(long i = 0 ; i < nbTgt ; ++i){
            const long it = tgtIndexes[i];
            if(it < 0 || it >= long(latT.size())) continue;
            for(long j = 0 ; j < nbSrc ; ++j){
                const long js = srcIndexes[j];
                if(js < 0 || js >= long(latS.size())) continue;
                u64 r2 = 0;
                for(int d = 0 ; d < Dim ; ++d){ const u64 r = u64(latT[it][d]) - (u64(latS[js][d]) + u64(4*shift[d])); r2 += r*r; }
                tgtRhs[js % K][i] += 1;  tgtRhs[K + (js % K)][i] += r2;
            }
        }
        cx.logElem(OpP2PTsm, cx.height-1, coordHash(symbTgt.boxCoord.data(), Dim), coordHash(symbSrc.boxCoord.data(), Dim), arrayIndexSrc);
    }

    template <class LeafSymbolicData, class ParticlesClassValues, class ParticlesClassRhs>
    void P2PInner(const LeafSymbolicData& symb, const long int indexes[],
                  const ParticlesClassValues& particles, ParticlesClassRhs& rhs, const long int nb) {
        Ctx& cx = ctx();
        cx.lastKernelThis = this;
        cx.calls[OpP2PInner] += 1;
        checkParticles("P2PInner", symb, indexes, particles, nb, false);
        const auto& lat = *cx.latTgt;
        for(long i = 0 ; i < nb ; ++i){
            const long it = indexes[i];
            if(it < 0 || it >= long(lat.size())) continue;
            for(long j = 0 ; j < nb ; ++j){
                if(i == j) continue;
                const long js = indexes[j];
                if(js < 0 || js >= long(lat.size())) continue;
                u64 r2 = 0;
                for(int d = 0 ; d < Dim ; ++d){ const u64 r = u64(lat[it][d]) - u64(lat[js][d]); r2 += r*r; }
                rhs[js % K][i] += 1;  rhs[K + (js % K)][i] += r2;
            }
        }
        cx.logElem(OpP2PInner, cx.height-1, coordHash(symb.boxCoord.data(), Dim), 0, 0);
    }
};

} // namespace vf

#endif
