// API-compatible mock of the part of Specx (Legacy/SpRuntime.hpp) used by TbfSmSpecxAlgorithm(Tsm).
// Every task goes to the controlled scheduler (harness/sched): SpRead -> R, SpWrite -> W, SpCommutativeWrite -> C.
#ifndef VF_MOCK_SPRUNTIME_HPP
#define VF_MOCK_SPRUNTIME_HPP

#include "sched/vf_sched.hpp"

#include <tuple>
#include <utility>
#include <memory>
#include <type_traits>

enum class SpSpeculativeModel { SP_NO_SPEC, SP_MODEL_1, SP_MODEL_2 };

struct SpPriority { int value; explicit SpPriority(const int v) : value(v) {} };

template <class T> struct SpReadAccess { const T& ref; static constexpr vfs::Mode mode = vfs::R; };
template <class T> struct SpWriteAccess { T& ref; static constexpr vfs::Mode mode = vfs::W; };
template <class T> struct SpCommuteAccess { T& ref; static constexpr vfs::Mode mode = vfs::C; };

template <class T> SpReadAccess<T> SpRead(const T& x){ return SpReadAccess<T>{x}; }
template <class T> SpWriteAccess<T> SpWrite(T& x){ return SpWriteAccess<T>{x}; }
template <class T> SpCommuteAccess<T> SpCommutativeWrite(T& x){ return SpCommuteAccess<T>{x}; }

struct SpWorkerTeam { int nbCpu; };
struct SpWorkerTeamBuilder {
    static SpWorkerTeam TeamOfCpuWorkers(){ return SpWorkerTeam{vfs::nbWorkers() > 0 ? vfs::nbWorkers() : 1}; }
    static SpWorkerTeam TeamOfCpuWorkers(const int n){ return SpWorkerTeam{n}; }
};
class SpComputeEngine {
    int nbCpu;
public:
    explicit SpComputeEngine(const SpWorkerTeam& t) : nbCpu(t.nbCpu) {}
    int getNbCpuWorkers() const { return nbCpu; }
    void stopIfNotAlreadyStopped(){}
};

namespace SpUtils {
inline long int GetThreadId(){ return vfs::inTask() ? long(vfs::currentWorker()) + 1 : 0; }    // workers are numbered from 1
inline int DefaultNumThreads(){ return vfs::nbWorkers() > 0 ? vfs::nbWorkers() : 1; }
}

namespace vf_specx_detail {
template <class T> struct is_priority : std::false_type {};
template <> struct is_priority<SpPriority> : std::true_type {};

template <class Tuple, std::size_t... I>
inline void collect(std::vector<vfs::Access>& acc, const Tuple& t, std::index_sequence<I...>){
    (acc.push_back(vfs::Access{static_cast<const void*>(&std::get<I>(t).ref), std::decay_t<decltype(std::get<I>(t))>::mode}), ...);
}
template <class Callable, class Tuple, std::size_t... I>
inline void invoke(Callable& c, Tuple& t, std::index_sequence<I...>){ c(std::get<I>(t).ref...); }

// accesses = all arguments but the last (the callable)
template <class... Args, std::size_t... I>
inline auto firsts(std::tuple<Args...>& all, std::index_sequence<I...>){ return std::make_tuple(std::get<I>(all)...); }
}

template <SpSpeculativeModel Model>
class SpTaskGraph {
    template <class... Rest>
    void submitImpl(const int priority, Rest&&... rest){
        auto all = std::make_tuple(std::forward<Rest>(rest)...);
        constexpr std::size_t n = sizeof...(Rest);
        auto accesses = vf_specx_detail::firsts(all, std::make_index_sequence<n-1>());
        using Callable = std::decay_t<decltype(std::get<n-1>(all))>;
        auto callable = std::make_shared<Callable>(std::move(std::get<n-1>(all)));       // the runtime owns a copy of the callable
        std::vector<vfs::Access> acc;
        vf_specx_detail::collect(acc, accesses, std::make_index_sequence<n-1>());
        auto accPtr = std::make_shared<decltype(accesses)>(accesses);
        vfs::submit(acc, priority, "specx-task", [callable, accPtr](){ vf_specx_detail::invoke(*callable, *accPtr, std::make_index_sequence<n-1>()); });
    }
public:
    void computeOn(SpComputeEngine&){}
    template <class First, class... Rest>
    void task(First&& first, Rest&&... rest){
        if constexpr (vf_specx_detail::is_priority<std::decay_t<First>>::value) submitImpl(first.value, std::forward<Rest>(rest)...);
        else submitImpl(0, std::forward<First>(first), std::forward<Rest>(rest)...);
    }
    void waitAllTasks(){ vfs::waitAll(); }
};

#endif
