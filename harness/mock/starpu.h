// API-compatible mock of the part of StarPU used by TbfSmStarpuAlgorithm(Tsm) (CPU only).
// The callbacks get the registered main-RAM pointers (a CPU-only StarPU does not relocate buffers; the CPU callbacks
// assert exactly that).  STARPU_R -> R, STARPU_W/RW -> W, STARPU_RW|STARPU_COMMUTE -> C.
#ifndef VF_MOCK_STARPU_H
#define VF_MOCK_STARPU_H

#include "sched/vf_sched.hpp"

#include <cstdarg>
#include <cstdint>
#include <cstring>
#include <memory>
#include <vector>
#include <string>
#include <pthread.h>

struct vf_starpu_variable { uintptr_t ptr; size_t elemsize; };
typedef vf_starpu_variable* starpu_data_handle_t;

enum starpu_data_access_mode { STARPU_NONE = 0, STARPU_R = 1, STARPU_W = 2, STARPU_RW = 3, STARPU_SCRATCH = 4, STARPU_REDUX = 8, STARPU_COMMUTE = 16 };

#define STARPU_VALUE    (1 << 17)
#define STARPU_PRIORITY (5 << 17)
#define STARPU_NAME     (20 << 17)
#define STARPU_CPU  (1u << 1)
#define STARPU_CUDA (1u << 3)
#define STARPU_MAIN_RAM 0
#define STARPU_NMAXBUFS 8
#define STARPU_MAXIMPLEMENTATIONS 4
enum starpu_perfmodel_type { STARPU_PERFMODEL_INVALID = 0, STARPU_PER_ARCH, STARPU_COMMON, STARPU_HISTORY_BASED };
enum starpu_worker_archtype { STARPU_CPU_WORKER = 0, STARPU_CUDA_WORKER = 1 };

struct starpu_perfmodel { starpu_perfmodel_type type; const char* symbol; };
typedef void (*starpu_cpu_func_t)(void**, void*);
struct starpu_codelet {
    uint32_t where;
    starpu_cpu_func_t cpu_funcs[STARPU_MAXIMPLEMENTATIONS];
    starpu_cpu_func_t cuda_funcs[STARPU_MAXIMPLEMENTATIONS];
    char cuda_flags[STARPU_MAXIMPLEMENTATIONS];
    int nbuffers;
    starpu_data_access_mode modes[STARPU_NMAXBUFS];
    const char* name;
    starpu_perfmodel* model;
};

#define STARPU_VARIABLE_GET_PTR(x) (reinterpret_cast<vf_starpu_variable*>(x)->ptr)
#define STARPU_VARIABLE_GET_ELEMSIZE(x) (reinterpret_cast<vf_starpu_variable*>(x)->elemsize)

namespace vf_starpu_detail {
struct State { int initCount = 0; bool paused = false; int execWorker = -1; long liveHandles = 0; };
inline State& state(){ static State s; return s; }
struct PackedArgs { std::vector<std::vector<unsigned char>> values; };
}

inline int starpu_init(void*){ vf_starpu_detail::state().initCount += 1; return 0; }
inline void starpu_shutdown(){ vf_starpu_detail::state().initCount -= 1; }
inline void starpu_pause(){ vf_starpu_detail::state().paused = true; }
inline void starpu_resume(){ vf_starpu_detail::state().paused = false; }
inline int starpu_task_wait_for_all(){ vfs::waitAll(); return 0; }
inline int starpu_worker_get_id(){ if(vfs::inTask()) return vfs::currentWorker(); return vf_starpu_detail::state().execWorker; }
inline unsigned starpu_worker_get_count(){ return unsigned(vfs::nbWorkers() > 0 ? vfs::nbWorkers() : 1); }
inline unsigned starpu_cpu_worker_get_count(){ return starpu_worker_get_count(); }
inline int starpu_worker_get_count_by_type(starpu_worker_archtype t){ return t == STARPU_CPU_WORKER ? int(starpu_worker_get_count()) : 0; }

inline void starpu_variable_data_register(starpu_data_handle_t* handle, int /*home_node*/, uintptr_t ptr, size_t size){
    *handle = new vf_starpu_variable{ptr, size};
    vf_starpu_detail::state().liveHandles += 1;
}
inline int starpu_data_acquire(starpu_data_handle_t, starpu_data_access_mode){ return 0; }
inline void starpu_data_release(starpu_data_handle_t){}
inline void starpu_data_unregister(starpu_data_handle_t h){ delete h; vf_starpu_detail::state().liveHandles -= 1; }

inline void starpu_execute_on_each_worker(void (*func)(void*), void* arg, uint32_t /*where*/){
    const int n = int(starpu_worker_get_count());
    for(int w = 0 ; w < n ; ++w){ vf_starpu_detail::state().execWorker = w; func(arg); }
    vf_starpu_detail::state().execWorker = -1;
}

inline void starpu_codelet_unpack_args(void* cl_arg, ...){
    auto* packed = static_cast<vf_starpu_detail::PackedArgs*>(cl_arg);
    va_list ap; va_start(ap, cl_arg);
    for(const auto& v : packed->values){
        void* dst = va_arg(ap, void*);
        if(dst) std::memcpy(dst, v.data(), v.size());
    }
    va_end(ap);
}

inline int starpu_insert_task(starpu_codelet* cl, ...){
    auto packed = std::make_shared<vf_starpu_detail::PackedArgs>();
    std::vector<vfs::Access> acc;
    auto buffers = std::make_shared<std::vector<void*>>();
    int priority = 0;
    std::string name = cl && cl->name ? cl->name : "starpu-task";
    va_list ap; va_start(ap, cl);
    while(true){
        const int type = va_arg(ap, int);
        if(type == 0) break;
        if(type == STARPU_VALUE){
            void* ptr = va_arg(ap, void*); const size_t size = va_arg(ap, size_t);
            packed->values.emplace_back(static_cast<unsigned char*>(ptr), static_cast<unsigned char*>(ptr) + size);   // copied at submission
        }
        else if(type == STARPU_PRIORITY){ priority = va_arg(ap, int); }
        else if(type == STARPU_NAME){ const char* n = va_arg(ap, const char*); if(n) name = n; }
        else if(type & (STARPU_R | STARPU_W | STARPU_SCRATCH | STARPU_REDUX)){
            starpu_data_handle_t h = va_arg(ap, starpu_data_handle_t);
            vfs::Mode m = vfs::R;
            if(type & STARPU_W) m = (type & STARPU_COMMUTE) ? vfs::C : vfs::W;
            acc.push_back(vfs::Access{static_cast<const void*>(h), m});
            buffers->push_back(static_cast<void*>(h));
        }
        else break;
    }
    va_end(ap);
    starpu_cpu_func_t fn = cl->cpu_funcs[0];
    vfs::submit(acc, priority, name.c_str(), [fn, packed, buffers](){ fn(buffers->data(), packed.get()); });
    return 0;
}

#endif
