// E3: sequential-task-flow engine shared by the mock task runtimes (GOMP, Specx, StarPU front ends).
// Every scheduling decision is taken by the explorer through a choice prefix + default policy.
// Tasks run to completion, one at a time, on their own stack (ucontext), so an execution is a sequence
// over create(k) / run(k,w).  This TU-pair (vf_sched.hpp/.cpp) is compiled WITHOUT instrumentation.
#ifndef VF_SCHED_HPP
#define VF_SCHED_HPP

#include <cstdint>
#include <functional>
#include <string>
#include <vector>
#include <map>

namespace vfs {

enum Mode { R = 0, W = 1, C = 2 };     // read, write/inout, commutative (mutually exclusive, unordered)
struct Access { const void* handle; Mode mode; };

enum Policy { DeferFifo = 0, Eager, DeferLifo, DeferPrio, DeferInvPrio, PolicyCount };
inline const char* policyName(int p){ static const char* n[] = {"defer-all-fifo","run-at-creation","defer-all-lifo","defer-all-priority","defer-all-inverted-priority"}; return n[p]; }

struct Step {
    int created;                 // p: tasks created before the step
    std::vector<std::uint64_t> doneMask;   // X: executed tasks before the step (bit per task id)
    std::vector<int> enabled;    // -1 = CREATE (continue the submitter), otherwise task id; canonical order
    int chosen;                  // index into enabled
    std::uint64_t digestAfter;   // state digest after the step (0 if digests are off)
};

struct WordAccess { std::uint8_t readMask, writeMask; };

struct TaskRecord {
    int id = 0;
    std::vector<Access> acc;
    std::vector<int> handleIds;          // ordinal of each handle in order of first appearance (address-free naming)
    int priority = 0;
    std::string label;
    int worker = -1;
    bool executed = false;
    int executedAtStep = -1;
    std::vector<std::uint64_t> liveActivations;   // shadow-stack snapshot at creation (trace build)
    std::map<std::uintptr_t, WordAccess> footprint;   // tree-buffer bytes touched, by 8-byte word (trace build)
    std::uint64_t obsDigest = 0;         // what the task observed/did (filled by the driver's hooks)
    const void* kernelUsed = nullptr;
    std::vector<std::string> lifetimeViolations;
};

struct RunTrace {
    std::vector<Step> steps;
    std::vector<TaskRecord> tasks;
    std::vector<std::string> violations;    // engine-level: deadlock, bad replay
    bool replayError = false;
    std::uint64_t finalDigest = 0;
};

struct Config {
    std::vector<int> prefix;
    Policy policy = DeferFifo;
    int nbWorkers = 2;
    std::vector<int> workerOf;           // optional explicit worker per execution ordinal; else round-robin
    bool digests = true;
    std::function<std::uint64_t()> stateDigest;       // hashes the tree buffers
    std::function<void(TaskRecord&)> afterTask;       // driver hook (observation digest, kernel used)
};

// called at every task submission (drivers point it at their watchdog heartbeat: a long run that keeps submitting is not a hang)
extern void (*progressHook)();

void beginRun(const Config& cfg);
RunTrace endRun();

// front ends
// boundary: lowest live address of the submitter's stack at this call (0 = the caller's frame)
void submit(const std::vector<Access>& acc, int priority, const char* label, const std::function<void()>& body, std::uintptr_t boundary = 0);
void waitAll(std::uintptr_t boundary = 0);
int currentWorker();          // worker id of the running task, 0 for the submitter
int nbWorkers();
bool inTask();

// dependency analysis on a finished trace
bool orderedPair(const TaskRecord& a, const TaskRecord& b);        // declared accesses order the two tasks (creation order)
bool conflicts(const TaskRecord& a, const TaskRecord& b);          // declared accesses conflict (=> ordered or exclusive)
std::vector<std::vector<bool>> orderedClosure(const std::vector<TaskRecord>& tasks);   // transitive closure of declared order
bool shareCommute(const TaskRecord& a, const TaskRecord& b);

// ---- trace support (implemented in vf_sched.cpp; called by the __tsan_* hooks there) --------------------
void setTreeRanges(const std::vector<std::pair<std::uintptr_t,std::uintptr_t>>& ranges);   // [lo,hi) of every group buffer
void traceEnable(bool on);

} // namespace vfs

#endif
