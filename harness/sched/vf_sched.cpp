// E3 engine: controlled scheduler, ucontext task stack, access-trace hooks, GOMP ABI front end.
// Compiled without any instrumentation, with -fno-omit-frame-pointer.
#include "vf_sched.hpp"

#include <ucontext.h>
#include <pthread.h>
#include <sys/mman.h>
#include <dlfcn.h>
#include <unistd.h>
#include <cstring>
#include <cstdio>
#include <cstdlib>
#include <algorithm>

#if defined(__SANITIZE_ADDRESS__)
extern "C" void __sanitizer_start_switch_fiber(void** fake_stack_save, const void* bottom, size_t size);
extern "C" void __sanitizer_finish_switch_fiber(void* fake_stack_save, const void** bottom_old, size_t* size_old);
#endif

namespace vfs {

namespace {

struct Activation { std::uintptr_t fp; std::uint64_t id; };

struct Engine {
    Config cfg;
    RunTrace trace;
    bool active = false;
    size_t prefixPos = 0;
    int executedCount = 0;
    std::map<const void*, int> handleIds;

    // task execution
    bool inTask = false;
    int curTask = -1;
    int curWorker = 0;
    ucontext_t mainCtx, taskCtx;
    void* taskStack = nullptr;
    size_t taskStackSize = 8u << 20;
    std::function<void()> curBody;
    std::vector<std::function<void()>> bodies;

    // trace
    bool traceOn = false;
    std::vector<Activation> shadow;
    std::uint64_t actCounter = 0;
    std::uintptr_t mainLo = 0, mainHi = 0;
    std::uintptr_t boundary = 0;
    std::vector<std::pair<std::uintptr_t,std::uintptr_t>> ranges;
} E;

void initMainStack(){
    if(E.mainHi) return;
    pthread_attr_t attr;
    pthread_getattr_np(pthread_self(), &attr);
    void* addr = nullptr; size_t size = 0;
    pthread_attr_getstack(&attr, &addr, &size);
    pthread_attr_destroy(&attr);
    E.mainLo = reinterpret_cast<std::uintptr_t>(addr);
    E.mainHi = E.mainLo + size;
}


void* g_fakeMain = nullptr; void* g_fakeTask = nullptr;
void trampoline(){
#if defined(__SANITIZE_ADDRESS__)
    __sanitizer_finish_switch_fiber(g_fakeTask, nullptr, nullptr);
#endif
    E.curBody();
#if defined(__SANITIZE_ADDRESS__)
    __sanitizer_start_switch_fiber(nullptr, reinterpret_cast<const void*>(E.mainLo), E.mainHi - E.mainLo);   // the task context dies here
#endif
    // returns to mainCtx through uc_link
}

} // namespace
bool orderedPair(const TaskRecord& a, const TaskRecord& b);
namespace {
bool readyTask(int k){
    const TaskRecord& t = E.trace.tasks[k];
    if(t.executed) return false;
    for(int j = 0 ; j < k ; ++j){
        const TaskRecord& o = E.trace.tasks[j];
        if(o.executed) continue;
        if(orderedPair(o, t)) return false;
    }
    return true;
}

} // namespace

// two tasks are ORDERED (earlier first) if on some common handle their modes conflict and are not both C
bool orderedPair(const TaskRecord& a, const TaskRecord& b){
    for(const auto& x : a.acc) for(const auto& y : b.acc){
        if(x.handle != y.handle) continue;
        if(x.mode == R && y.mode == R) continue;
        if(x.mode == C && y.mode == C) continue;
        return true;
    }
    return false;
}
bool shareCommute(const TaskRecord& a, const TaskRecord& b){
    for(const auto& x : a.acc) for(const auto& y : b.acc) if(x.handle == y.handle && x.mode == C && y.mode == C) return true;
    return false;
}
bool conflicts(const TaskRecord& a, const TaskRecord& b){ return orderedPair(a, b) || shareCommute(a, b); }


std::vector<std::vector<bool>> orderedClosure(const std::vector<TaskRecord>& tasks){
    const size_t n = tasks.size();
    std::vector<std::vector<bool>> ord(n, std::vector<bool>(n, false));
    for(size_t i = 0 ; i < n ; ++i) for(size_t j = i+1 ; j < n ; ++j) if(orderedPair(tasks[i], tasks[j])) ord[i][j] = true;
    for(size_t k = 0 ; k < n ; ++k) for(size_t i = 0 ; i < k ; ++i) if(ord[i][k]) for(size_t j = k+1 ; j < n ; ++j) if(ord[k][j]) ord[i][j] = true;
    return ord;
}

void setTreeRanges(const std::vector<std::pair<std::uintptr_t,std::uintptr_t>>& ranges){
    E.ranges = ranges;
    std::sort(E.ranges.begin(), E.ranges.end());
}
void traceEnable(bool on){ E.traceOn = on; }

void beginRun(const Config& cfg){
    initMainStack();
    if(!E.taskStack){
        E.taskStack = mmap(nullptr, E.taskStackSize, PROT_READ|PROT_WRITE, MAP_PRIVATE|MAP_ANONYMOUS|MAP_STACK, -1, 0);
    }
    E.cfg = cfg;
    E.trace = RunTrace();
    E.active = true;
    E.prefixPos = 0;
    E.executedCount = 0;
    E.handleIds.clear();
    E.inTask = false; E.curTask = -1; E.curWorker = 0;
    E.bodies.clear();
}

RunTrace endRun(){
    E.active = false;
    if(E.cfg.stateDigest && E.cfg.digests) E.trace.finalDigest = E.cfg.stateDigest();
    E.bodies.clear();
    return std::move(E.trace);
}

int currentWorker(){ return E.inTask ? E.curWorker : 0; }
int nbWorkers(){ return E.cfg.nbWorkers; }
bool inTask(){ return E.inTask; }

namespace {

void fillState(Step& s){
    s.created = int(E.trace.tasks.size());
    s.doneMask.assign(E.trace.tasks.size()/64 + 1, 0);
    for(const auto& t : E.trace.tasks) if(t.executed) s.doneMask[t.id >> 6] |= (1ULL << (t.id & 63));
}

int choose(const std::vector<int>& enabled){
    // replayed prefix first
    if(E.prefixPos < E.cfg.prefix.size()){
        const int c = E.cfg.prefix[E.prefixPos++];
        if(c < 0 || c >= int(enabled.size())){
            E.trace.replayError = true;
            E.trace.violations.push_back("replay: choice " + std::to_string(c) + " not enabled at step " + std::to_string(E.trace.steps.size()));
            return 0;
        }
        return c;
    }
    const bool hasCreate = (!enabled.empty() && enabled[0] == -1);
    switch(E.cfg.policy){
    case DeferFifo: return 0;
    case Eager: return (hasCreate && enabled.size() > 1) ? 1 : 0;
    case DeferLifo: return hasCreate ? 0 : int(enabled.size())-1;
    case DeferPrio: case DeferInvPrio: {
        if(hasCreate) return 0;
        int best = 0;
        for(int i = 1 ; i < int(enabled.size()) ; ++i){
            const int pb = E.trace.tasks[enabled[best]].priority, pi = E.trace.tasks[enabled[i]].priority;
            if(E.cfg.policy == DeferPrio ? (pi > pb) : (pi < pb)) best = i;
        }
        return best;
    }
    default: return 0;
    }
}

void runTask(const int k, const std::uintptr_t boundary){
    TaskRecord& t = E.trace.tasks[k];
    const int ordinal = E.executedCount++;
    t.worker = (ordinal < int(E.cfg.workerOf.size())) ? E.cfg.workerOf[ordinal] : (E.cfg.nbWorkers > 0 ? ordinal % E.cfg.nbWorkers : 0);
    E.curTask = k; E.curWorker = t.worker; E.boundary = boundary;
    E.curBody = E.bodies[k];
    getcontext(&E.taskCtx);
    E.taskCtx.uc_stack.ss_sp = E.taskStack;
    E.taskCtx.uc_stack.ss_size = E.taskStackSize;
    E.taskCtx.uc_link = &E.mainCtx;
    makecontext(&E.taskCtx, reinterpret_cast<void(*)()>(trampoline), 0);
    E.inTask = true;
#if defined(__SANITIZE_ADDRESS__)
    __sanitizer_start_switch_fiber(&g_fakeMain, E.taskStack, E.taskStackSize);
#endif
    swapcontext(&E.mainCtx, &E.taskCtx);
#if defined(__SANITIZE_ADDRESS__)
    __sanitizer_finish_switch_fiber(g_fakeMain, nullptr, nullptr);
#endif
    E.inTask = false;
    t.executed = true;
    t.executedAtStep = int(E.trace.steps.size());
    E.bodies[k] = nullptr;
    if(E.cfg.afterTask) E.cfg.afterTask(t);
    E.curTask = -1; E.curWorker = 0;
}

// one step: CREATE (continue the submitter) or run one ready task.  Every step consumes one choice.
// returns the picked task id, -1 for CREATE, -2 if nothing is enabled
int decide(const bool allowCreate, const std::uintptr_t boundary){
    std::vector<int> enabled;
    if(allowCreate) enabled.push_back(-1);
    for(int k = 0 ; k < int(E.trace.tasks.size()) ; ++k) if(readyTask(k)) enabled.push_back(k);
    if(enabled.empty()){
        bool pending = false;
        for(const auto& t : E.trace.tasks) if(!t.executed) pending = true;
        if(pending) E.trace.violations.push_back("deadlock: tasks pending but none ready");
        return -2;
    }
    Step s; fillState(s);
    s.enabled = enabled;
    s.chosen = choose(enabled);
    s.digestAfter = 0;
    const int pick = enabled[s.chosen];
    E.trace.steps.push_back(s);
    if(pick >= 0){
        runTask(pick, boundary);
        if(E.cfg.digests && E.cfg.stateDigest) E.trace.steps.back().digestAfter = E.cfg.stateDigest();
    }
    return pick;
}

} // namespace

void (*progressHook)() = nullptr;

void submit(const std::vector<Access>& acc, int priority, const char* label, const std::function<void()>& body, std::uintptr_t boundary){
    if(progressHook) progressHook();
    if(boundary == 0) boundary = reinterpret_cast<std::uintptr_t>(__builtin_frame_address(0)) + 16;
    if(!E.active){ body(); return; }
    while(decide(true, boundary) >= 0){}
    TaskRecord t;
    t.id = int(E.trace.tasks.size());
    t.acc = acc; t.priority = priority; t.label = label ? label : "";
    for(const auto& a : acc){
        auto it = E.handleIds.find(a.handle);
        if(it == E.handleIds.end()) it = E.handleIds.emplace(a.handle, int(E.handleIds.size())).first;
        t.handleIds.push_back(it->second);
    }
    for(const auto& a : E.shadow) t.liveActivations.push_back(a.id);
    E.trace.tasks.push_back(std::move(t));
    E.bodies.push_back(body);
    if(E.cfg.digests && E.cfg.stateDigest && !E.trace.steps.empty()) E.trace.steps.back().digestAfter = E.cfg.stateDigest();
}

void waitAll(std::uintptr_t boundary){
    if(boundary == 0) boundary = reinterpret_cast<std::uintptr_t>(__builtin_frame_address(0)) + 16;
    if(!E.active) return;
    while(true){
        bool pending = false;
        for(const auto& t : E.trace.tasks) if(!t.executed) pending = true;
        if(!pending) break;
        if(decide(false, boundary) == -2) break;      // deadlock recorded
    }
}

// ---- access trace ----------------------------------------------------------------------------------------
namespace {

inline void record(const std::uintptr_t addr, const size_t size, const bool isWrite){
    if(!E.traceOn || !E.inTask || E.curTask < 0) return;
    TaskRecord& t = E.trace.tasks[E.curTask];
    if(addr >= E.mainLo && addr < E.mainHi){
        // access of a task to the submitter's stack
        char buf[200];
        if(addr < E.boundary){
            if(t.lifetimeViolations.size() < 4){
                snprintf(buf, sizeof(buf), "%s of %zu bytes in a dead frame of the submitter (%ld bytes below the live stack)", isWrite ? "write" : "read", size, long(E.boundary - addr));
                t.lifetimeViolations.push_back(std::string("dead-frame|") + buf);
            }
            return;
        }
        std::uint64_t owner = 0; bool found = false;
        for(size_t i = E.shadow.size() ; i-- > 0 ; ){
            if(addr < E.shadow[i].fp + 16){ owner = E.shadow[i].id; found = true; break; }
        }
        if(found && std::find(t.liveActivations.begin(), t.liveActivations.end(), owner) == t.liveActivations.end()){
            if(t.lifetimeViolations.size() < 4){
                snprintf(buf, sizeof(buf), "%s of %zu bytes in a frame that did not exist when the task was created (the creator's frame was popped and the memory reused)", isWrite ? "write" : "read", size);
                t.lifetimeViolations.push_back(std::string("reused-frame|") + buf);
            }
        }
        return;
    }
    if(E.ranges.empty()) return;
    // tree buffers only
    auto it = std::upper_bound(E.ranges.begin(), E.ranges.end(), std::make_pair(addr, ~std::uintptr_t(0)));
    if(it == E.ranges.begin()) return;
    --it;
    if(addr >= it->second) return;
    for(size_t b = 0 ; b < size ; ++b){
        const std::uintptr_t a = addr + b;
        WordAccess& w = t.footprint[a >> 3];
        if(isWrite) w.writeMask |= std::uint8_t(1u << (a & 7)); else w.readMask |= std::uint8_t(1u << (a & 7));
    }
}

} // namespace
} // namespace vfs

namespace vfs {
// name of an outlined task function (they are local symbols: read them from the executable's symbol table once)
const char* symbolOf(void* fn){
    static std::map<std::uintptr_t, std::string> table;
    static bool loaded = false;
    static std::uintptr_t slide = 0;
    if(!loaded){
        loaded = true;
        Dl_info info;
        if(dladdr(reinterpret_cast<void*>(&symbolOf), &info)) slide = reinterpret_cast<std::uintptr_t>(info.dli_fbase);
        char exe[3000]; const ssize_t n = readlink("/proc/self/exe", exe, sizeof(exe)-1);
        exe[n > 0 ? n : 0] = 0;
        const std::string cmd = std::string("nm --defined-only '") + exe + "' 2>/dev/null | grep _omp_fn";
        FILE* f = popen(cmd.c_str(), "r");
        if(f){
            char line[4096];
            while(fgets(line, sizeof(line), f)){
                unsigned long addr = 0; char type = 0; char name[3900];
                if(sscanf(line, "%lx %c %3899s", &addr, &type, name) == 3) table[addr] = name;
            }
            pclose(f);
        }
    }
    const std::uintptr_t a = reinterpret_cast<std::uintptr_t>(fn);
    auto it = table.find(a - slide);
    if(it == table.end()) it = table.find(a);
    return it == table.end() ? "" : it->second.c_str();
}
}

extern "C" {
void __tsan_init(){}
void __tsan_func_entry(void*){
    using namespace vfs;
    if(!E.traceOn || E.inTask) return;
    E.shadow.push_back({reinterpret_cast<std::uintptr_t>(__builtin_frame_address(1)), ++E.actCounter});
}
void __tsan_func_exit(){
    using namespace vfs;
    if(!E.traceOn || E.inTask) return;
    if(!E.shadow.empty()) E.shadow.pop_back();
}
#define VF_RW(n) \
    void __tsan_read##n(void* a){ vfs::record(reinterpret_cast<std::uintptr_t>(a), n, false); } \
    void __tsan_write##n(void* a){ vfs::record(reinterpret_cast<std::uintptr_t>(a), n, true); } \
    void __tsan_unaligned_read##n(void* a){ vfs::record(reinterpret_cast<std::uintptr_t>(a), n, false); } \
    void __tsan_unaligned_write##n(void* a){ vfs::record(reinterpret_cast<std::uintptr_t>(a), n, true); }
VF_RW(1) VF_RW(2) VF_RW(4) VF_RW(8) VF_RW(16)
void __tsan_read_range(void* a, unsigned long n){ vfs::record(reinterpret_cast<std::uintptr_t>(a), n, false); }
void __tsan_write_range(void* a, unsigned long n){ vfs::record(reinterpret_cast<std::uintptr_t>(a), n, true); }
void __tsan_vptr_update(void**, void*){}
void __tsan_vptr_read(void**){}
// atomics the instrumented TU may emit (function-local static guards, reference counts): single-threaded here
char __tsan_atomic8_load(const volatile char* a, int){ return *a; }
void __tsan_atomic8_store(volatile char* a, char v, int){ *a = v; }
int __tsan_atomic32_load(const volatile int* a, int){ return *a; }
void __tsan_atomic32_store(volatile int* a, int v, int){ *a = v; }
int __tsan_atomic32_fetch_add(volatile int* a, int v, int){ const int o = *a; *a = o + v; return o; }
int __tsan_atomic32_fetch_sub(volatile int* a, int v, int){ const int o = *a; *a = o - v; return o; }
long __tsan_atomic64_load(const volatile long* a, int){ return *a; }
void __tsan_atomic64_store(volatile long* a, long v, int){ *a = v; }
long __tsan_atomic64_fetch_add(volatile long* a, long v, int){ const long o = *a; *a = o + v; return o; }
long __tsan_atomic64_fetch_sub(volatile long* a, long v, int){ const long o = *a; *a = o - v; return o; }
void __tsan_atomic_thread_fence(int){}
void __tsan_atomic_signal_fence(int){}

// ---- GOMP ABI front end (the executable is compiled with -fopenmp but linked without libgomp) --------------
int omp_get_thread_num(void){ return vfs::currentWorker(); }
int omp_get_max_threads(void){ return vfs::nbWorkers() > 0 ? vfs::nbWorkers() : 1; }
int omp_get_num_threads(void){ return vfs::nbWorkers() > 0 ? vfs::nbWorkers() : 1; }

#define VF_CALLER_BOUNDARY (reinterpret_cast<std::uintptr_t>(__builtin_frame_address(0)) + 16)
void GOMP_parallel(void (*fn)(void*), void* data, unsigned /*num_threads*/, unsigned /*flags*/){
    const std::uintptr_t boundary = VF_CALLER_BOUNDARY;
    fn(data);                      // thread 0 runs the region; the other threads of the team would only execute tasks
    vfs::waitAll(boundary);        // implicit barrier at the end of the region
}
void GOMP_barrier(void){ vfs::waitAll(VF_CALLER_BOUNDARY); }
void GOMP_taskwait(void){ vfs::waitAll(VF_CALLER_BOUNDARY); }

void GOMP_task(void (*fn)(void*), void* data, void (*cpyfn)(void*, void*), long arg_size, long arg_align,
               bool if_clause, unsigned flags, void** depend, int priority, void* /*detach*/){
    const std::uintptr_t boundary = VF_CALLER_BOUNDARY;
    std::vector<vfs::Access> acc;
    if((flags & 8u) && depend){
        size_t n, nout, nmutex = 0, base;
        if(reinterpret_cast<std::uintptr_t>(depend[0]) != 0){
            n = reinterpret_cast<std::uintptr_t>(depend[0]); nout = reinterpret_cast<std::uintptr_t>(depend[1]); base = 2;
        }
        else{
            n = reinterpret_cast<std::uintptr_t>(depend[1]); nout = reinterpret_cast<std::uintptr_t>(depend[2]);
            nmutex = reinterpret_cast<std::uintptr_t>(depend[3]); base = 5;
        }
        for(size_t i = 0 ; i < n ; ++i){
            vfs::Mode m = vfs::R;
            if(i < nout) m = vfs::W; else if(i < nout + nmutex) m = vfs::C;
            acc.push_back({depend[base + i], m});
        }
    }
    // copy the argument block exactly like libgomp does
    const size_t align = arg_align > 0 ? size_t(arg_align) : 1;
    char* raw = static_cast<char*>(malloc(size_t(arg_size) + align));
    char* buf = reinterpret_cast<char*>((reinterpret_cast<std::uintptr_t>(raw) + align - 1) / align * align);
    if(cpyfn) cpyfn(buf, data); else memcpy(buf, data, size_t(arg_size));
    const char* label = vfs::symbolOf(reinterpret_cast<void*>(fn));
    auto body = [fn, buf, raw](){ fn(buf); free(raw); };
    if(!if_clause){ body(); return; }
    vfs::submit(acc, (flags & 16u) ? priority : 0, label, body, boundary);
}
}
