// Stateless-with-cache explorer over the abstract state (tasks created, set of tasks executed).
// A state is reached by replaying a choice prefix on a FRESH tree + algorithm object; on every arrival at a state the
// implementation digest must equal the one stored for that state (confluence); every transition out of every
// reachable state is executed at least once (full mode), or every schedule with <= bound deviations from the default.
#ifndef VF_EXPLORE_HPP
#define VF_EXPLORE_HPP

#include "vf_sched.hpp"

#include <unordered_map>
#include <unordered_set>
#include <sstream>

namespace vfs {

struct SKey {
    int created; std::uint64_t m0, m1;
    bool operator==(const SKey& o) const { return created == o.created && m0 == o.m0 && m1 == o.m1; }
};
struct SKeyHash { size_t operator()(const SKey& k) const { std::uint64_t h = k.m0*0x9e3779b97f4a7c15ULL ^ (k.m1 + 0x7f4a7c15ULL)*0xbf58476d1ce4e5b9ULL ^ std::uint64_t(k.created)*0x94d049bb133111ebULL; return size_t(h ^ (h >> 29)); } };

inline SKey keyBefore(const Step& s){ return {s.created, s.doneMask.size() > 0 ? s.doneMask[0] : 0, s.doneMask.size() > 1 ? s.doneMask[1] : 0}; }   // graphs of <= 128 tasks
inline SKey keyAfter(const Step& s, const int choiceIdx){
    SKey k = keyBefore(s);
    const int pick = s.enabled[choiceIdx];
    if(pick < 0) k.created += 1;
    else if(pick < 64) k.m0 |= (1ULL << pick); else k.m1 |= (1ULL << (pick-64));
    return k;
}

inline std::string prefixStr(const std::vector<int>& p){
    std::ostringstream o;
    for(size_t i = 0 ; i < p.size() ; ++i) o << (i ? "," : "") << p[i];
    return o.str();
}
inline std::vector<int> parsePrefix(const std::string& s){
    std::vector<int> p; std::istringstream in(s); std::string t;
    while(std::getline(in, t, ',')) if(!t.empty()) p.push_back(std::stoi(t));
    return p;
}

struct ExploreStats {
    unsigned long states = 0, transitions = 0, runs = 0, terminalDigests = 0;
    bool capped = false;
};

class Explorer {
public:
    // runs one complete execution following the prefix, then the default policy (choice 0); must build fresh objects
    std::function<RunTrace(const std::vector<int>&)> run;
    // called for every completed run (terminal-state invariants, per-task oracles); returns false to stop early
    std::function<void(const std::vector<int>& prefix, const RunTrace&)> onRun;
    // called when two executions reach the same abstract state with different implementation digests
    std::function<void(const std::vector<int>& prefixA, const std::vector<int>& prefixB, const SKey&)> onDivergence;
    std::function<bool()> shouldStop;
    std::function<void(const std::vector<int>&)> breadcrumb;

    int bound = -1;                    // < 0: full state space; otherwise max number of non-default choices
    unsigned long maxStates = 3000000;
    ExploreStats stats;

private:
    struct Stored { std::uint64_t digest; std::vector<int> prefix; };
    std::unordered_map<SKey, Stored, SKeyHash> digestOf;
    std::unordered_set<SKey, SKeyHash> expanded;
    std::unordered_set<std::uint64_t> terminal;

    static int cost(const std::vector<int>& p){ int c = 0; for(int v : p) if(v != 0) ++c; return c; }

    void checkDigests(const std::vector<int>& choices, const RunTrace& x){
        for(size_t i = 0 ; i < x.steps.size() ; ++i){
            const SKey after = keyAfter(x.steps[i], x.steps[i].chosen);
            auto it = digestOf.find(after);
            if(it == digestOf.end()){
                digestOf.emplace(after, Stored{x.steps[i].digestAfter, std::vector<int>(choices.begin(), choices.begin()+i+1)});
            }
            else if(it->second.digest != x.steps[i].digestAfter){
                if(onDivergence) onDivergence(it->second.prefix, std::vector<int>(choices.begin(), choices.begin()+i+1), after);
            }
        }
    }

public:
    // the abstract states expanded so far (for the cross-check with TLC)
    std::vector<SKey> visitedStates() const { return std::vector<SKey>(expanded.begin(), expanded.end()); }

    void explore(const std::vector<int>& prefix){
        if(shouldStop && shouldStop()){ stats.capped = true; return; }
        if(breadcrumb) breadcrumb(prefix);
        const RunTrace x = run(prefix);
        stats.runs += 1;
        std::vector<int> choices;
        for(const auto& s : x.steps) choices.push_back(s.chosen);
        checkDigests(choices, x);
        if(terminal.insert(x.finalDigest).second) stats.terminalDigests += 1;
        if(onRun) onRun(prefix, x);
        if(x.replayError) return;
        for(size_t i = prefix.size() ; i < x.steps.size() ; ++i){
            const Step& s = x.steps[i];
            const SKey here = keyBefore(s);
            if(bound < 0){
                if(!expanded.insert(here).second) break;          // old ground: this state was expanded by an earlier run
                stats.states += 1;
                stats.transitions += s.enabled.size();
                if(stats.states > maxStates){ stats.capped = true; return; }
            }
            else{
                if(expanded.insert(here).second) stats.states += 1;
            }
            for(int alt = 0 ; alt < int(s.enabled.size()) ; ++alt){
                if(alt == s.chosen) continue;
                std::vector<int> np(choices.begin(), choices.begin()+i);
                np.push_back(alt);
                if(bound >= 0){
                    if(cost(np) > bound) continue;
                    stats.transitions += 1;
                    explore(np);
                }
                else{
                    // every transition is executed; the exploration continues from it only if its target is new
                    const SKey target = keyAfter(s, alt);
                    if(expanded.find(target) == expanded.end()) explore(np);
                    else{
                        if(breadcrumb) breadcrumb(np);
                        const RunTrace y = run(np);
                        stats.runs += 1;
                        std::vector<int> ch2; for(const auto& t : y.steps) ch2.push_back(t.chosen);
                        checkDigests(ch2, y);
                        if(terminal.insert(y.finalDigest).second) stats.terminalDigests += 1;
                        if(onRun) onRun(np, y);
                    }
                }
                if(stats.capped) return;
            }
        }
        // the terminal state
        if(!x.steps.empty() && bound < 0){
            const SKey last = keyAfter(x.steps.back(), x.steps.back().chosen);
            if(expanded.insert(last).second) stats.states += 1;
        }
    }
};

} // namespace vfs

#endif
