// C20: the direct particle-particle routines against an independent long double evaluation.
#include "kernels/P2P/FP2PR.hpp"
#include "vf_enum.hpp"

using namespace vf;

namespace {

template <class Real>
struct Set {
    std::vector<Real> x, y, z, q;
    std::array<Real*,4> data(){ return {{x.data(), y.data(), z.data(), q.data()}}; }
    std::array<const Real*,4> cdata() const { return {{x.data(), y.data(), z.data(), q.data()}}; }
};
template <class Real>
struct Rhs {
    std::vector<Real> fx, fy, fz, p;
    explicit Rhs(size_t n, Real init = 0) : fx(n, init), fy(n, init), fz(n, init), p(n, init) {}
    std::array<Real*,4> data(){ return {{fx.data(), fy.data(), fz.data(), p.data()}}; }
};

// deterministic layouts: a skewed lattice scaled by `sep`, sources and targets interleaved so that they never coincide
template <class Real>
Set<Real> makeSet(const long n, const double sep, const int family, const bool isSource){
    Set<Real> s;
    for(long i = 0 ; i < n ; ++i){
        const long k = 2*i + (isSource ? 1 : 0);
        double px, py, pz;
        switch(family){
        case 0: px = k; py = 0.5*(k % 3); pz = 0.25*(k % 5); break;                 // line with small transverse offsets
        case 1: px = k % 4; py = (k/4) % 4; pz = k/16 + 0.5*(k % 2); break;            // cubic lattice
        default: px = (k % 7)*1.0e-3 + 1; py = (k/7)*1.0e-3 + 1; pz = 1 + (k % 2)*0.5e-3; break;   // tight cluster far from the origin
        }
        s.x.push_back(Real(px*sep)); s.y.push_back(Real(py*sep)); s.z.push_back(Real(pz*sep));
        const double mag = 0.25 + 0.125*(k % 5);
        s.q.push_back(Real((k % 3 == 0) ? -mag : mag));
    }
    return s;
}

template <class Real>
struct Exact { std::vector<long double> fx, fy, fz, p, afx, afy, afz, ap; };

// contribution of sources to targets (skipSame: same array, skip j == i)
template <class Real>
Exact<Real> exact(const Set<Real>& src, const Set<Real>& tgt, const bool skipSame){
    Exact<Real> e; const size_t n = tgt.x.size();
    e.fx.assign(n,0); e.fy.assign(n,0); e.fz.assign(n,0); e.p.assign(n,0); e.afx.assign(n,0); e.afy.assign(n,0); e.afz.assign(n,0); e.ap.assign(n,0);
    for(size_t i = 0 ; i < n ; ++i) for(size_t j = 0 ; j < src.x.size() ; ++j){
        if(skipSame && i == j) continue;
        const long double dx = (long double)src.x[j] - tgt.x[i], dy = (long double)src.y[j] - tgt.y[i], dz = (long double)src.z[j] - tgt.z[i];
        const long double r2 = dx*dx + dy*dy + dz*dz, r = sqrtl(r2);
        const long double c = (long double)tgt.q[i] * src.q[j] / (r2*r);
        e.fx[i] += c*dx; e.fy[i] += c*dy; e.fz[i] += c*dz; e.p[i] += (long double)src.q[j]/r;
        e.afx[i] += fabsl(c*dx); e.afy[i] += fabsl(c*dy); e.afz[i] += fabsl(c*dz); e.ap[i] += fabsl((long double)src.q[j]/r);
    }
    return e;
}

template <class Real>
void compare(Outcome& out, const std::string& what, Rhs<Real>& got, const Exact<Real>& e, const long double init, const size_t nOther){
    const long double eps = std::numeric_limits<Real>::epsilon();
    const long double tolN = 16.0L * (long double)(nOther + 4) * eps;
    for(size_t i = 0 ; i < got.p.size() ; ++i){
        const long double g[4] = {got.fx[i], got.fy[i], got.fz[i], got.p[i]};
        const long double x[4] = {e.fx[i], e.fy[i], e.fz[i], e.p[i]};
        const long double a[4] = {e.afx[i], e.afy[i], e.afz[i], e.ap[i]};
        for(int c = 0 ; c < 4 ; ++c){
            if(!std::isfinite((double)g[c])){ out.add(what + ":not-finite", "particle " + std::to_string(i) + " component " + std::to_string(c)); continue; }
            const long double err = fabsl(g[c] - (x[c] + init));
            if(err > tolN * (a[c] + fabsl(init)) + 4*std::numeric_limits<Real>::denorm_min()){
                std::ostringstream o; o.precision(17);
                o << "particle " << i << " component " << c << " got " << (double)g[c] << " expected " << (double)(x[c]+init) << " |err|/sum|terms| " << (double)(err/(a[c]+fabsl(init)+1e-300L));
                out.add(what + (c == 3 ? ":potential" : ":force"), o.str());
            }
        }
    }
}

template <class Real>
void evalCase(const long ns, const long nt, const double sep, const int family, Report& rep, Progress& pg, const std::string& realName){
    const std::string cs = "real=" + realName + " nsrc=" + std::to_string(ns) + " ntgt=" + std::to_string(nt) + " sep=" + std::to_string(sep) + " family=" + std::to_string(family);
    if(!pg.begin(cs)) return;
    Outcome out;
    Set<Real> src = makeSet<Real>(ns, sep, family, true), tgt = makeSet<Real>(nt, sep, family, false);
    const Exact<Real> eT = exact(src, tgt, false), eS = exact(tgt, src, false), eI = exact(tgt, tgt, true);
    const Real init = Real(0.375);     // routines must ADD to what is there
    for(int scalar = 0 ; scalar < 2 ; ++scalar){
        const std::string tagS = scalar ? "scalar-" : "";
        {   // one-sided
            Rhs<Real> r(nt, init); auto rd = r.data();
            const auto sd = src.cdata(), td = tgt.cdata();
            if(scalar) FP2PR::GenericFullRemoteScalar<Real>(sd, ns, td, rd, nt); else FP2PR::GenericFullRemote<Real>(sd, ns, td, rd, nt);
            compare(out, tagS + "remote", r, eT, init, ns);
        }
        {   // mutual
            Rhs<Real> rt(nt, init), rs(ns, init); auto rtd = rt.data(), rsd = rs.data();
            const auto sd = src.cdata(), td = tgt.cdata();
            if(scalar) FP2PR::FullMutualScalar<Real>(sd, rsd, ns, td, rtd, nt); else FP2PR::FullMutual<Real>(sd, rsd, ns, td, rtd, nt);
            compare(out, tagS + "mutual-target", rt, eT, init, ns);
            compare(out, tagS + "mutual-source", rs, eS, init, nt);
            // equal and opposite forces: total force = 0 up to rounding
            long double tot[3] = {0,0,0}, mag[3] = {0,0,0};
            for(long i = 0 ; i < nt ; ++i){ tot[0] += rt.fx[i]-init; tot[1] += rt.fy[i]-init; tot[2] += rt.fz[i]-init; mag[0] += eT.afx[i]; mag[1] += eT.afy[i]; mag[2] += eT.afz[i]; }
            for(long j = 0 ; j < ns ; ++j){ tot[0] += rs.fx[j]-init; tot[1] += rs.fy[j]-init; tot[2] += rs.fz[j]-init; mag[0] += eS.afx[j]; mag[1] += eS.afy[j]; mag[2] += eS.afz[j]; }
            for(int c = 0 ; c < 3 ; ++c) if(fabsl(tot[c]) > 32.0L*(ns+nt+4)*std::numeric_limits<Real>::epsilon()*(mag[c] + (ns+nt)*fabsl(init)) + 1e-300L) out.add(tagS + "mutual:not-equal-and-opposite", "component " + std::to_string(c));
        }
        {   // inner
            Rhs<Real> r(nt, init); auto rd = r.data();
            const auto td = tgt.cdata();
            if(scalar) FP2PR::GenericInnerScalar<Real>(td, rd, nt); else FP2PR::GenericInner<Real>(td, rd, nt);
            compare(out, tagS + "inner", r, eI, init, nt);
        }
    }
    rep.evaluations += 1;
    if(ns >= 1 && nt >= 1) rep.nontrivial += 1;
    rep.addOutcome(out, cs);
    if(rep.evaluations % 97 == 1) rep.sample(cs);
}

} // namespace

int main(int argc, char** argv){
    const Args args = Args::parse(argc, argv);
    const bool thorough = (args.tier == "thorough");
    return supervise(args, "C20", [&](Report& rep, Progress& pg){
        std::vector<long> counts;
        for(long n = 0 ; n <= 17 ; ++n) counts.push_back(n);
        for(long n : {31L, 32L, 33L, 64L, 65L}) counts.push_back(n);
        if(thorough){ for(long n = 18 ; n <= 30 ; ++n) counts.push_back(n); for(long n : {34L, 47L, 48L, 49L, 63L, 66L, 95L, 96L, 97L, 127L, 128L, 129L, 255L, 256L, 257L, 500L, 1000L}) counts.push_back(n); }
        const std::vector<double> seps = thorough ? std::vector<double>{1e-6, 1e-3, 1, 1e3, 1e6} : std::vector<double>{1e-3, 1, 1e3};
        rep.spaces.push_back("(nsrc, ntgt) in {0..17,31,32,33,64,65" + std::string(thorough ? ",18..30,34,47..49,63,66,95..97,127..129,255..257,500,1000" : "") + "}^2 x separation scale x 3 layout families x {float,double} x {scalar entry points, generic entry points}");
        unsigned long ord = 0;
        for(long ns : counts) for(long nt : counts) for(double sep : seps) for(int fam = 0 ; fam < 3 ; ++fam){
            if((ord++) % args.nbSlices != args.slice) continue;
            if(rep.timeUp()){ rep.cut(); return; }
            evalCase<double>(ns, nt, sep, fam, rep, pg, "double");
            evalCase<float>(ns, nt, sep, fam, rep, pg, "float");
            pg.publish(rep);
        }
    });
}
