// C04 (rotation kernel, -DVF_C04) and C05 (uniform kernel, -DVF_C05): the numerical kernels against an independent long double
// direct sum, over an enumerated lattice of (order, height, box, particle set, type, grouping, executor/schedule).
// Executors: sequential, and the OpenMP executor under the mock runtime with the defer-all named schedules.
#include "vf_enum.hpp"
#include "sched/vf_sched.hpp"
#include "algorithms/openmp/tbfopenmpalgorithm.hpp"
#include "algorithms/sequential/tbfalgorithmtsm.hpp"
#include "algorithms/periodic/tbfalgorithmperiodictoptree.hpp"
#ifdef VF_C04
#include "kernels/rotationkernel/FRotationKernel.hpp"
#endif
#ifdef VF_C05
#include "kernels/unifkernel/FUnifKernel.hpp"
#endif
#include <complex>

using namespace vf;

namespace {

Progress* g_pg = nullptr;
inline void beat(){ if(g_pg && g_pg->sh) g_pg->sh->heartbeat += 1; }

struct Pt { double x, y, z, q; };

// deterministic particle sets inside the unit cube [0,1]^3 (mapped to the box afterwards)
std::vector<Pt> particleSet(const int id){
    std::vector<Pt> p;
    auto charge = [&](size_t i){ const double m = 0.5 + double(i % 7)/7.0; return (i % 3 == 0) ? -m : m; };
    if(id == 0){            // points ON cell faces / box faces in one or two coordinates (dyadic), generic in the others; box corners region
        for(int i = 0 ; i <= 8 ; ++i) for(int j = 0 ; j < 3 ; ++j) for(int k = 0 ; k < 3 ; ++k) p.push_back({i/8.0, 0.137 + j*0.31, 0.071 + k*0.29, 0});
        for(int i = 0 ; i <= 8 ; i += 2) for(int j = 0 ; j <= 8 ; j += 4) p.push_back({i/8.0, j/8.0, 0.3911 + 0.013*i, 0});
        for(int k = 0 ; k < 6 ; ++k) p.push_back({0.2113 + 0.1*k, 1.0, 0.0, 0});      // on box edges
    }
    else if(id == 4){       // the singular positions of spherical expansions: exactly at leaf centres and on the axes through them
        for(int i = 1 ; i < 8 ; i += 2) for(int j = 1 ; j < 8 ; j += 2) p.push_back({i/8.0, j/8.0, 0.5, 0});
        for(int i = 1 ; i < 16 ; i += 2) p.push_back({i/16.0, i/16.0, 0.3 + 0.01*i, 0});
        for(int i = 1 ; i < 32 ; i += 4) p.push_back({i/32.0, i/32.0, i/32.0, 0});
        p.push_back({0.77, 0.31, 0.19, 0});
    }
    else if(id == 1){       // clustered corner + a few far particles
        for(int i = 0 ; i < 4 ; ++i) for(int j = 0 ; j < 4 ; ++j) for(int k = 0 ; k < 4 ; ++k) p.push_back({0.01 + i*0.02, 0.013 + j*0.02, 0.017 + k*0.02, 0});
        p.push_back({0.97, 0.95, 0.93, 0}); p.push_back({0.5, 0.5, 0.5, 0}); p.push_back({0.03, 0.96, 0.5, 0});
    }
    else if(id == 2){       // two far clusters
        for(int i = 0 ; i < 3 ; ++i) for(int j = 0 ; j < 3 ; ++j) for(int k = 0 ; k < 4 ; ++k){
            p.push_back({0.05 + i*0.03, 0.04 + j*0.031, 0.06 + k*0.029, 0});
            p.push_back({0.95 - i*0.03, 0.96 - j*0.031, 0.94 - k*0.029, 0});
        }
    }
    else{                   // quasi-uniform low-discrepancy set (no randomness)
        for(int i = 0 ; i < 150 ; ++i){
            auto frac = [](double v){ return v - std::floor(v); };
            p.push_back({frac(0.5 + i*0.7548776662466927), frac(0.5 + i*0.5698402909980532), frac(0.5 + i*0.4301597090019468), 0});
        }
    }
    for(size_t i = 0 ; i < p.size() ; ++i) p[i].q = charge(i);
    return p;
}

struct Res { std::vector<long double> pot, fx, fy, fz; };

template <class Real>
Res exactSum(const std::vector<std::array<Real,4>>& parts){
    Res r; const size_t n = parts.size();
    r.pot.assign(n, 0); r.fx.assign(n, 0); r.fy.assign(n, 0); r.fz.assign(n, 0);
    for(size_t i = 0 ; i < n ; ++i) for(size_t j = 0 ; j < n ; ++j){
        if(i == j) continue;
        const long double dx = (long double)parts[j][0] - parts[i][0], dy = (long double)parts[j][1] - parts[i][1], dz = (long double)parts[j][2] - parts[i][2];
        const long double r2 = dx*dx + dy*dy + dz*dz, rr = sqrtl(r2);
        const long double c = (long double)parts[i][3] * parts[j][3] / (r2*rr);
        r.pot[i] += (long double)parts[j][3] / rr; r.fx[i] += c*dx; r.fy[i] += c*dy; r.fz[i] += c*dz;
    }
    return r;
}
template <class Real>
void absSums(const std::vector<std::array<Real,4>>& parts, std::vector<long double>& apot, std::vector<long double>& aforce){
    const size_t n = parts.size(); apot.assign(n, 0); aforce.assign(n, 0);
    for(size_t i = 0 ; i < n ; ++i) for(size_t j = 0 ; j < n ; ++j){
        if(i == j) continue;
        const long double dx = (long double)parts[j][0] - parts[i][0], dy = (long double)parts[j][1] - parts[i][1], dz = (long double)parts[j][2] - parts[i][2];
        const long double r2 = dx*dx + dy*dy + dz*dz;
        apot[i] += fabsl((long double)parts[j][3]) / sqrtl(r2); aforce[i] += fabsl((long double)parts[i][3]*parts[j][3]) / r2;
    }
}

struct BoxN { double c[3]; double width; const char* name; double corner(const int d) const { return c[d] - width/2; } };   // cubic boxes; the centre differs per axis in the shifted ones
const BoxN BOXES[3] = {{{0.5, 0.5, 0.5}, 1.0, "unit"}, {{-11.3, 4.1, 0.7}, 3.7, "shifted-3.7"}, {{100.0, -60.0, 31.0}, 0.015625, "small-far"}};

// runs the FMM; exec 0 = sequential, 1.. = OpenMP under the mock runtime with the named schedule exec-1
template <class Real, class KernelClass, class MultipoleClass, class LocalClass, class MakeKernel>
Res runFmm(const std::vector<std::array<Real,4>>& parts, const int height, const BoxN& box, const long bs, const bool ogpp, const int exec, MakeKernel&& makeKernel, bool& finite){
    using SI = TbfDefaultSpaceIndexType<Real>;
    using Tree = TbfTree<Real, Real, 4, Real, 4, MultipoleClass, LocalClass, SI>;
    const std::array<Real,3> w{{Real(box.width), Real(box.width), Real(box.width)}}, c{{Real(box.c[0]), Real(box.c[1]), Real(box.c[2])}};
    const TbfSpacialConfiguration<Real,3> cfg(height, w, c);
    Tree tree(cfg, parts, bs, ogpp);
    beat();
    if(exec == 0){
        auto k = makeKernel(cfg); auto algo = std::make_unique<TbfAlgorithm<Real, KernelClass, SI>>(cfg, *k);
        algo->execute(tree);
    }
    else{
        vfs::Config vc; vc.policy = vfs::Policy(exec == 1 ? vfs::DeferFifo : exec == 2 ? vfs::DeferLifo : exec == 3 ? vfs::DeferInvPrio : vfs::Eager); vc.nbWorkers = 2; vc.digests = false;
        vfs::beginRun(vc);
        { auto k = makeKernel(cfg); auto algo = std::make_unique<TbfOpenmpAlgorithm<Real, KernelClass, SI>>(cfg, *k); algo->execute(tree); }
        vfs::endRun();
    }
    Res r; const size_t n = parts.size();
    r.pot.assign(n, 0); r.fx.assign(n, 0); r.fy.assign(n, 0); r.fz.assign(n, 0);
    finite = true;
    tree.applyToAllLeaves([&](auto&& header, const long int* idxs, auto&& /*data*/, auto&& rhs){
        for(long p = 0 ; p < header.nbParticles ; ++p){
            const long id = idxs[p];
            r.fx[id] = rhs[0][p]; r.fy[id] = rhs[1][p]; r.fz[id] = rhs[2][p]; r.pot[id] = rhs[3][p];
            for(int v = 0 ; v < 4 ; ++v) if(!std::isfinite(double(rhs[v][p]))) finite = false;
        }
    });
    return r;
}

struct Err { long double pot = 0, force = 0; };
Err relErr(const Res& got, const Res& ex, const std::vector<long double>& apot, const std::vector<long double>& aforce){
    Err e;
    for(size_t i = 0 ; i < got.pot.size() ; ++i){
        if(apot[i] > 0) e.pot = std::max(e.pot, fabsl(got.pot[i] - ex.pot[i]) / apot[i]);
        if(aforce[i] > 0){
            const long double d = sqrtl((got.fx[i]-ex.fx[i])*(got.fx[i]-ex.fx[i]) + (got.fy[i]-ex.fy[i])*(got.fy[i]-ex.fy[i]) + (got.fz[i]-ex.fz[i])*(got.fz[i]-ex.fz[i]));
            e.force = std::max(e.force, d / aforce[i]);
        }
    }
    return e;
}
long double maxDiff(const Res& a, const Res& b, const std::vector<long double>& apot, const std::vector<long double>& aforce){
    long double m = 0;
    for(size_t i = 0 ; i < a.pot.size() ; ++i){
        if(apot[i] > 0) m = std::max(m, fabsl(a.pot[i]-b.pot[i]) / apot[i]);
        if(aforce[i] > 0) m = std::max(m, std::max(fabsl(a.fx[i]-b.fx[i]), std::max(fabsl(a.fy[i]-b.fy[i]), fabsl(a.fz[i]-b.fz[i]))) / aforce[i]);
    }
    return m;
}

#ifdef VF_C04
// bounds on the error normalised by the sum of absolute pair contributions (fixed constants: measured worst case of this
// deterministic space x 8, never above the textbook bound 0.77^(P+1))
// measured worst case over this deterministic space (sets 0-3): potential 3.7e-3 / 1.9e-3 / 3.1e-4 / 1.2e-4, force 4.5e-2 / 1.8e-2 / 8.5e-3 / 2.7e-3 for P = 4 / 6 / 8 / 12; bounds = 3 x that
double boundPot(int P){ return P == 4 ? 1.1e-2 : P == 6 ? 5.6e-3 : P == 8 ? 9.2e-4 : 3.4e-4; }
double boundForce(int P){ return P == 4 ? 1.3e-1 : P == 6 ? 5.4e-2 : P == 8 ? 2.6e-2 : 8.0e-3; }
constexpr bool SingularSetIsFinding = true;     // set 4 (leaf centres / axes) is singular for spherical expansions (finding D14)
template <class Real, int P, class SIx = TbfDefaultSpaceIndexType<Real>> struct K4 {
    static constexpr long VectorSize = ((P+2)*(P+1))/2;
    using M = std::array<std::complex<Real>, VectorSize>;
    using L = std::array<std::complex<Real>, VectorSize>;
    using Kernel = FRotationKernel<Real, P, SIx>;
    template <class S2> using Rebind = K4<Real, P, S2>;
    static auto maker(){ return [](const TbfSpacialConfiguration<Real,3>& cfg){ return std::make_unique<Kernel>(cfg); }; }   // heap: a P=12 kernel is ~16 MB
    static const char* name(){ return "rotation"; }
};
#endif
#ifdef VF_C05
constexpr bool SingularSetIsFinding = false;
// measured worst case over this deterministic space: potential 1.9e-3 / 4.7e-4 / 1.4e-4 / 1.8e-5 / 4.3e-6 / 1.6e-6 and force
// 9.5e-2 / 3.2e-2 / 9.1e-3 / 2.5e-3 / 6.8e-4 / 1.8e-4 for order 3 / 4 / 5 / 6 / 7 / 8; bounds = 3 x that
double boundPot(int O){ return O == 3 ? 5.6e-3 : O == 4 ? 1.4e-3 : O == 5 ? 4.2e-4 : O == 6 ? 5.3e-5 : O == 7 ? 1.3e-5 : 4.8e-6; }
double boundForce(int O){ return O == 3 ? 2.9e-1 : O == 4 ? 1.0e-1 : O == 5 ? 2.8e-2 : O == 6 ? 7.5e-3 : O == 7 ? 2.1e-3 : 5.5e-4; }
template <class Real, int ORDER, class SIx = TbfDefaultSpaceIndexType<Real>> struct K5 {
    template <class S2> using Rebind = K5<Real, ORDER, S2>;
    static constexpr long VectorSize = TensorTraits<ORDER>::nnodes;
    static constexpr long TransformedVectorSize = (2*ORDER-1)*(2*ORDER-1)*(2*ORDER-1);
    struct M { Real multipole_exp[VectorSize]; std::complex<Real> transformed_multipole_exp[TransformedVectorSize]; };
    struct L { Real local_exp[VectorSize]; std::complex<Real> transformed_local_exp[TransformedVectorSize]; };
    using Kernel = FUnifKernel<Real, FInterpMatrixKernelR<Real>, ORDER, 3, SIx>;
    static FInterpMatrixKernelR<Real>& interp(){ static FInterpMatrixKernelR<Real> i; return i; }
    static auto maker(){ return [](const TbfSpacialConfiguration<Real,3>& cfg){ return std::make_unique<Kernel>(cfg, &interp()); }; }
    static const char* name(){ return "uniform"; }
};
#endif

struct Measure {
    std::map<std::string, long double> worstPot, worstForce;
    // errors of the current configuration by (type, order), for the "shrinks as the order grows" clause
    std::map<std::pair<int,int>, std::pair<long double,long double>> current;
    std::string currentCase;
    void checkMonotone(Report& rep){
        Outcome out;
        for(auto it = current.begin() ; it != current.end() ; ++it){
            auto nx = std::next(it);
            if(nx == current.end() || nx->first.first != it->first.first) continue;
            const long double floorE = (it->first.first == 4 ? 2e-5L : 1e-12L);
            if(nx->second.first > 1.5L*it->second.first + floorE || nx->second.second > 1.5L*it->second.second + 8*floorE){
                std::ostringstream o; o << currentCase << ": order " << it->first.second << " errors (" << (double)it->second.first << ", " << (double)it->second.second << ") but order " << nx->first.second << " errors (" << (double)nx->second.first << ", " << (double)nx->second.second << ")";
                out.add("accuracy:error-grows-with-order", o.str());
            }
        }
        rep.addOutcome(out, currentCase);
        current.clear();
    }
};

template <class Real, class KT, int ORD>
void evalConfig(const int height, const int boxId, const int setId, Report& rep, Progress& pg, const bool thorough, Measure& ms){
    using M = typename KT::M; using L = typename KT::L; using Kernel = typename KT::Kernel;
    const BoxN& box = BOXES[boxId];
    std::vector<std::array<Real,4>> parts;
    for(const Pt& p : particleSet(setId)){
        parts.push_back({{Real(box.corner(0) + p.x*box.width), Real(box.corner(1) + p.y*box.width), Real(box.corner(2) + p.z*box.width), Real(p.q)}});
    }
    const std::string base = std::string(KT::name()) + " order=" + std::to_string(ORD) + " real=" + (sizeof(Real) == 4 ? "float" : "double") + " height=" + std::to_string(height)
        + " box=" + box.name + " set=" + std::to_string(setId) + " n=" + std::to_string(parts.size());
    if(!pg.begin(base)) return;
    const Res ex = exactSum(parts);
    std::vector<long double> apot, aforce; absSums(parts, apot, aforce);
    const long double epsR = std::numeric_limits<Real>::epsilon();
    const long double floorErr = 64 * epsR * parts.size();
    Outcome out;
    // grouping x executor matrix; the first one is the reference for "unchanged to rounding"
    struct Cfg { long bs; bool og; int exec; };
    std::vector<Cfg> cfgs = {{10000000L, false, 0}, {1, false, 0}, {3, true, 0}, {3, false, 1}, {1, true, 2}};
    if(thorough){ cfgs.push_back({7, false, 3}); cfgs.push_back({2, true, 4}); cfgs.push_back({-1, false, 0}); }
    Res ref; bool haveRef = false;
    for(const Cfg& c : cfgs){
        if(c.exec != 0 && height >= 6) continue;      // the mock runtime's readiness test is cubic in the number of tasks (thousands here); heights <= 5 cover the executors
        bool finite = true;
        const Res got = runFmm<Real, Kernel, M, L>(parts, height, box, c.bs, c.og, c.exec, KT::maker(), finite);
        const std::string cs = base + " bs=" + std::to_string(c.bs) + " ogpp=" + std::to_string(c.og) + " exec=" + std::to_string(c.exec);
        if(!finite) out.add("numeric:not-finite", cs);
        const Err e = relErr(got, ex, apot, aforce);
        const std::string tag = std::string("order=") + std::to_string(ORD) + (sizeof(Real) == 4 ? " float" : " double");
        if(setId != 4 || !SingularSetIsFinding){ ms.worstPot[tag] = std::max(ms.worstPot[tag], e.pot); ms.worstForce[tag] = std::max(ms.worstForce[tag], e.force); }
        if(&c == &cfgs[0] && finite && (setId != 4 || !SingularSetIsFinding)){ ms.current[{int(sizeof(Real)), ORD}] = {e.pot, e.force}; ms.currentCase = std::string(KT::name()) + " height=" + std::to_string(height) + " box=" + box.name + " set=" + std::to_string(setId); }
        if(e.pot > std::max<long double>(boundPot(ORD), floorErr)){ std::ostringstream o; o << cs << ": potential error " << (double)e.pot << " above the bound " << boundPot(ORD); out.add("accuracy:potential-above-order-bound", o.str()); }
        if(e.force > std::max<long double>(boundForce(ORD), 8*floorErr)){ std::ostringstream o; o << cs << ": force error " << (double)e.force << " above the bound " << boundForce(ORD); out.add("accuracy:force-above-order-bound", o.str()); }
        if(!haveRef){ ref = got; haveRef = true; }
        else{
            const long double d = maxDiff(got, ref, apot, aforce);
            if(d > 65536 * epsR){ std::ostringstream o; o << cs << ": differs from the single-group sequential run by " << (double)d << " (normalised)"; out.add("stability:depends-on-grouping-or-executor", o.str()); }
        }
        rep.evaluations += 1;
    }
    // linearity in the charges (potential): q = q1 + q2
    {
        auto p1 = parts, p2 = parts;
        for(size_t i = 0 ; i < parts.size() ; ++i){ p1[i][3] = Real(0.25) * parts[i][3] + Real(i % 2 ? 0.125 : -0.125); p2[i][3] = parts[i][3] - p1[i][3]; }
        bool f1, f2;
        const Res r1 = runFmm<Real, Kernel, M, L>(p1, height, box, 3, false, 0, KT::maker(), f1);
        const Res r2 = runFmm<Real, Kernel, M, L>(p2, height, box, 3, false, 0, KT::maker(), f2);
        long double worst = 0;
        for(size_t i = 0 ; i < parts.size() ; ++i) if(apot[i] > 0) worst = std::max(worst, fabsl(ref.pot[i] - (r1.pot[i] + r2.pot[i])) / (apot[i] + 1));
        if(worst > 262144 * epsR){ std::ostringstream o; o << base << ": potential(q) - potential(q1) - potential(q2) = " << (double)worst; out.add("stability:not-linear-in-charges", o.str()); }
        rep.evaluations += 2;
    }
    rep.nontrivial += (height >= 4 ? 1 : 0);
    rep.addOutcome(out, base);
    if(rep.samples.size() < 5) rep.sample(base);
}


// ---- periodic variant against the explicit image sum, target/source variant against the direct sum over the sources --------
#ifdef VF_C04
// periodic: measured worst case 1.7e-4 / 6.0e-5 (potential) and 2.5e-3 / 1.3e-3 (force) for P = 4 / 8 against the explicit image sum; x 3
double boundPotPer(int P){ return P == 4 ? 5.2e-4 : P == 8 ? 1.8e-4 : boundPot(P); }
double boundForcePer(int P){ return P == 4 ? 7.5e-3 : P == 8 ? 3.9e-3 : boundForce(P); }
#else
// periodic: measured worst case 1.4e-4 / 3.4e-6 (potential) and 9.7e-4 / 6.2e-5 (force) for order 4 / 6; x 3
double boundPotPer(int O){ return O == 4 ? 4.1e-4 : O == 6 ? 1.0e-5 : boundPot(O); }
double boundForcePer(int O){ return O == 4 ? 2.9e-3 : O == 6 ? 1.9e-4 : boundForce(O); }
#endif

template <class Real, class KT0, int ORD>
void evalPeriodicNum(const int height, const int boxId, const int setId, const long extra, Report& rep, Progress& pg, Measure& ms){
    using SIP = TbfDefaultSpaceIndexTypePeriodic<Real>;
    using KT = typename KT0::template Rebind<SIP>;
    using M = typename KT::M; using L = typename KT::L; using Kernel = typename KT::Kernel;
    using Tree = TbfTree<Real, Real, 4, Real, 4, M, L, SIP>;
    using Top = TbfAlgorithmPeriodicTopTree<Real, Kernel, M, L, SIP>;
    const BoxN& box = BOXES[boxId];
    std::vector<std::array<Real,4>> parts;
    const auto pts = particleSet(setId);
    for(size_t i = 0 ; i < pts.size() && parts.size() < 60 ; ++i){
        // keep the particles strictly inside the box (a point on the upper face coincides with the image of the lower face)
        const double x = std::min(pts[i].x, 0.999), y = std::min(pts[i].y, 0.999), z = std::min(pts[i].z, 0.999);
        parts.push_back({{Real(box.corner(0) + x*box.width), Real(box.corner(1) + y*box.width), Real(box.corner(2) + z*box.width), Real(pts[i].q)}});
    }
    const std::string base = std::string(KT::name()) + "-periodic order=" + std::to_string(ORD) + " real=" + (sizeof(Real) == 4 ? "float" : "double") + " height=" + std::to_string(height)
        + " box=" + box.name + " set=" + std::to_string(setId) + " extra=" + std::to_string(extra) + " n=" + std::to_string(parts.size());
    if(!pg.begin(base)) return;
    const std::array<Real,3> w{{Real(box.width), Real(box.width), Real(box.width)}}, c{{Real(box.c[0]), Real(box.c[1]), Real(box.c[2])}};
    const TbfSpacialConfiguration<Real,3> cfg(height, w, c);
    Outcome out;
    Res got; long lo = 0, hi = 0;
    {
        Tree tree(cfg, parts, 3, false);
        beat();
        auto k = KT::maker()(cfg);
        auto kTop = KT::maker()(Top::GenerateAboveTreeConfiguration(cfg, extra));
        auto algo = std::make_unique<TbfAlgorithm<Real, Kernel, SIP>>(cfg, *k, TbfDefaultLastLevelPeriodic);
        auto top = std::make_unique<Top>(cfg, *kTop, extra);
        algo->execute(tree, TbfAlgorithmUtils::TbfBottomToTopStages);
        top->execute(tree);
        algo->execute(tree, TbfAlgorithmUtils::TbfTransferStages);
        algo->execute(tree, TbfAlgorithmUtils::TbfTopToBottomStages);
        const auto iv = top->getRepetitionsIntervals(); lo = iv.first[0]; hi = iv.second[0];
        const size_t n = parts.size();
        got.pot.assign(n, 0); got.fx.assign(n, 0); got.fy.assign(n, 0); got.fz.assign(n, 0);
        tree.applyToAllLeaves([&](auto&& header, const long int* idxs, auto&& /*data*/, auto&& rhs){
            for(long p = 0 ; p < header.nbParticles ; ++p){
                const long id = idxs[p];
                got.fx[id] = rhs[0][p]; got.fy[id] = rhs[1][p]; got.fz[id] = rhs[2][p]; got.pot[id] = rhs[3][p];
                for(int v = 0 ; v < 4 ; ++v) if(!std::isfinite(double(rhs[v][p]))) out.add("numeric:not-finite", base);
            }
        });
    }
    beat();
    // explicit sum over the images of the reported interval
    const size_t n = parts.size();
    Res ex; ex.pot.assign(n, 0); ex.fx.assign(n, 0); ex.fy.assign(n, 0); ex.fz.assign(n, 0);
    std::vector<long double> apot(n, 0), aforce(n, 0);
    const long double W = (long double)Real(box.width);
    for(size_t i = 0 ; i < n ; ++i) for(size_t j = 0 ; j < n ; ++j) for(long a = lo ; a <= hi ; ++a) for(long b = lo ; b <= hi ; ++b) for(long cc = lo ; cc <= hi ; ++cc){
        if(i == j && a == 0 && b == 0 && cc == 0) continue;
        const long double dx = (long double)parts[j][0] + a*W - parts[i][0], dy = (long double)parts[j][1] + b*W - parts[i][1], dz = (long double)parts[j][2] + cc*W - parts[i][2];
        const long double r2 = dx*dx + dy*dy + dz*dz, rr = sqrtl(r2);
        const long double co = (long double)parts[i][3] * parts[j][3] / (r2*rr);
        ex.pot[i] += (long double)parts[j][3] / rr; ex.fx[i] += co*dx; ex.fy[i] += co*dy; ex.fz[i] += co*dz;
        apot[i] += fabsl((long double)parts[j][3]) / rr; aforce[i] += fabsl((long double)parts[i][3]*parts[j][3]) / r2;
    }
    const Err e = relErr(got, ex, apot, aforce);
    const std::string tag = std::string("periodic order=") + std::to_string(ORD) + (sizeof(Real) == 4 ? " float" : " double");
    ms.worstPot[tag] = std::max(ms.worstPot[tag], e.pot); ms.worstForce[tag] = std::max(ms.worstForce[tag], e.force);
    // the periodic bounds were measured on heights 2..3 (quick space); deeper trees are held to the kernel's per-order bound
    const double bPot = height <= 3 ? boundPotPer(ORD) : std::max(boundPotPer(ORD), boundPot(ORD)), bForce = height <= 3 ? boundForcePer(ORD) : std::max(boundForcePer(ORD), boundForce(ORD));
    if(e.pot > bPot){ std::ostringstream o; o << base << ": potential error " << (double)e.pot << " against the explicit sum over images " << lo << ".." << hi << " above the bound " << bPot; out.add("accuracy:periodic-potential-above-order-bound", o.str()); }
    if(e.force > bForce){ std::ostringstream o; o << base << ": force error " << (double)e.force << " above the bound " << bForce; out.add("accuracy:periodic-force-above-order-bound", o.str()); }
    rep.evaluations += 1; rep.nontrivial += 1;
    rep.addOutcome(out, base);
}

template <class Real, class KT, int ORD>
void evalTsmNum(const int height, const int boxId, const int setSrc, const int setTgt, Report& rep, Progress& pg, Measure& ms){
    using SI = TbfDefaultSpaceIndexType<Real>;
    using M = typename KT::M; using L = typename KT::L; using Kernel = typename KT::Kernel;
    using TreeT = TbfTreeTsm<Real, Real, 4, Real, 4, M, L, SI>;
    const BoxN& box = BOXES[boxId];
    auto mk = [&](int id){ std::vector<std::array<Real,4>> v; 
        for(const Pt& p : particleSet(id)) v.push_back({{Real(box.corner(0) + p.x*box.width), Real(box.corner(1) + p.y*box.width), Real(box.corner(2) + p.z*box.width), Real(p.q)}}); return v; };
    const auto src = mk(setSrc); auto tgt = mk(setTgt);
    // 1/r is singular for a target that coincides with a source: not part of the input space
    tgt.erase(std::remove_if(tgt.begin(), tgt.end(), [&](const std::array<Real,4>& t){ for(const auto& q : src) if(q[0] == t[0] && q[1] == t[1] && q[2] == t[2]) return true; return false; }), tgt.end());
    const std::string base = std::string(KT::name()) + "-tsm order=" + std::to_string(ORD) + " real=" + (sizeof(Real) == 4 ? "float" : "double") + " height=" + std::to_string(height)
        + " box=" + box.name + " sources=set" + std::to_string(setSrc) + " targets=set" + std::to_string(setTgt);
    if(!pg.begin(base)) return;
    const std::array<Real,3> w{{Real(box.width), Real(box.width), Real(box.width)}}, c{{Real(box.c[0]), Real(box.c[1]), Real(box.c[2])}};
    const TbfSpacialConfiguration<Real,3> cfg(height, w, c);
    Outcome out;
    const size_t n = tgt.size();
    Res got; got.pot.assign(n, 0); got.fx.assign(n, 0); got.fy.assign(n, 0); got.fz.assign(n, 0);
    {
        TreeT tree(cfg, src, tgt, 3, false);
        beat();
        auto k = KT::maker()(cfg);
        auto algo = std::make_unique<TbfAlgorithmTsm<Real, Kernel, SI>>(cfg, *k);
        algo->execute(tree);
        tree.applyToAllLeavesTarget([&](auto&& header, const long int* idxs, auto&& /*data*/, auto&& rhs){
            for(long p = 0 ; p < header.nbParticles ; ++p){
                const long id = idxs[p];
                got.fx[id] = rhs[0][p]; got.fy[id] = rhs[1][p]; got.fz[id] = rhs[2][p]; got.pot[id] = rhs[3][p];
                for(int v = 0 ; v < 4 ; ++v) if(!std::isfinite(double(rhs[v][p]))) out.add("numeric:not-finite", base);
            }
        });
    }
    Res ex; ex.pot.assign(n, 0); ex.fx.assign(n, 0); ex.fy.assign(n, 0); ex.fz.assign(n, 0);
    std::vector<long double> apot(n, 0), aforce(n, 0);
    for(size_t i = 0 ; i < n ; ++i) for(size_t j = 0 ; j < src.size() ; ++j){
        const long double dx = (long double)src[j][0] - tgt[i][0], dy = (long double)src[j][1] - tgt[i][1], dz = (long double)src[j][2] - tgt[i][2];
        const long double r2 = dx*dx + dy*dy + dz*dz, rr = sqrtl(r2);
        if(r2 == 0) continue;
        const long double co = (long double)tgt[i][3] * src[j][3] / (r2*rr);
        ex.pot[i] += (long double)src[j][3] / rr; ex.fx[i] += co*dx; ex.fy[i] += co*dy; ex.fz[i] += co*dz;
        apot[i] += fabsl((long double)src[j][3]) / rr; aforce[i] += fabsl((long double)tgt[i][3]*src[j][3]) / r2;
    }
    const Err e = relErr(got, ex, apot, aforce);
    const std::string tag = std::string("tsm order=") + std::to_string(ORD) + (sizeof(Real) == 4 ? " float" : " double");
    ms.worstPot[tag] = std::max(ms.worstPot[tag], e.pot); ms.worstForce[tag] = std::max(ms.worstForce[tag], e.force);
    if(e.pot > boundPot(ORD)){ std::ostringstream o; o << base << ": potential error " << (double)e.pot << " above the bound " << boundPot(ORD); out.add("accuracy:tsm-potential-above-order-bound", o.str()); }
    if(e.force > boundForce(ORD)){ std::ostringstream o; o << base << ": force error " << (double)e.force << " above the bound " << boundForce(ORD); out.add("accuracy:tsm-force-above-order-bound", o.str()); }
    rep.evaluations += 1; rep.nontrivial += 1;
    rep.addOutcome(out, base);
}

} // namespace

int main(int argc, char** argv){
    const Args args = Args::parse(argc, argv);
    const bool thorough = (args.tier == "thorough");
    return supervise(args, args.mode, [&](Report& rep, Progress& pg){
        Measure ms;
        g_pg = &pg;
        vfs::progressHook = &beat;
        unsigned long ord = 0;
#ifdef VF_NUM_LIGHT
#define VF_FULL(...)
        // sanitizer build (C15): the smallest order only, heights <= 3
        const int maxH = 3;
#else
#define VF_FULL(...) __VA_ARGS__
        const int maxH = thorough ? 6 : 5;
#endif
        auto mine = [&](){ return (ord++) % args.nbSlices == args.slice; };
#ifdef VF_C04
        rep.spaces.push_back("rotation kernel: P in {4,8" + std::string(thorough ? ",6,12" : "") + "} x heights 1.." + std::to_string(maxH) + " x boxes {unit, shifted-3.7, small-far} x 4 particle sets x {double" + (thorough ? ",float" : "") + "} x groupings x {sequential, OpenMP under defer-all schedules (mock runtime)} + linearity");
        for(int h = 1 ; h <= maxH ; ++h) for(int b = 0 ; b < 3 ; ++b) for(int s = 0 ; s < 5 ; ++s){
            if(rep.timeUp()){ rep.cut(); return; }
            if(!mine()) continue;
            evalConfig<double, K4<double,4>, 4>(h, b, s, rep, pg, thorough, ms);
            VF_FULL(if(thorough) evalConfig<double, K4<double,6>, 6>(h, b, s, rep, pg, thorough, ms);)
            VF_FULL(evalConfig<double, K4<double,8>, 8>(h, b, s, rep, pg, thorough, ms);)
            VF_FULL(if(thorough){
                evalConfig<double, K4<double,12>, 12>(h, b, s, rep, pg, thorough, ms);
                if(b < 2) evalConfig<float, K4<float,4>, 4>(h, b, s, rep, pg, thorough, ms);
                if(b < 2) evalConfig<float, K4<float,8>, 8>(h, b, s, rep, pg, thorough, ms);
            })
            ms.checkMonotone(rep);
        }
        // periodic variant (explicit image sum) and target/source variant
        for(int h = 2 ; h <= (thorough ? 4 : 3) ; ++h) for(int b = 0 ; b < 2 ; ++b) for(int s = 1 ; s <= 3 ; ++s) for(long extra = -1 ; extra <= (thorough ? 2 : 1) ; ++extra){
            if(rep.timeUp()){ rep.cut(); return; }
            if(!mine()) continue;
            evalPeriodicNum<double, K4<double,4>, 4>(h, b, s, extra, rep, pg, ms);
            VF_FULL(evalPeriodicNum<double, K4<double,8>, 8>(h, b, s, extra, rep, pg, ms);)
        }
        for(int h = 1 ; h <= maxH ; ++h) for(int b = 0 ; b < 2 ; ++b) for(int s = 0 ; s < 3 ; ++s){
            if(rep.timeUp()){ rep.cut(); return; }
            if(!mine()) continue;
            evalTsmNum<double, K4<double,4>, 4>(h, b, s, (s+1)%4, rep, pg, ms);
            VF_FULL(evalTsmNum<double, K4<double,8>, 8>(h, b, s, (s+2)%4, rep, pg, ms);)
        }
#endif
#ifdef VF_C05
        rep.spaces.push_back("uniform kernel: order in {4,5,6" + std::string(thorough ? ",3,7,8" : "") + "} x heights 1.." + std::to_string(maxH) + " x boxes x 4 particle sets x {double" + (thorough ? ",float" : "") + "} x groupings (block size 1 = one batch per child group vs single batch) x executors + linearity");
        for(int h = 1 ; h <= maxH ; ++h) for(int b = 0 ; b < 3 ; ++b) for(int s = 0 ; s < 5 ; ++s){
            if(rep.timeUp()){ rep.cut(); return; }
            if(!mine()) continue;
            VF_FULL(if(thorough) evalConfig<double, K5<double,3>, 3>(h, b, s, rep, pg, thorough, ms);)
            evalConfig<double, K5<double,4>, 4>(h, b, s, rep, pg, thorough, ms);
            VF_FULL(if(thorough || b < 2) evalConfig<double, K5<double,5>, 5>(h, b, s, rep, pg, thorough, ms);)      // an odd order in the quick tier too
            VF_FULL(evalConfig<double, K5<double,6>, 6>(h, b, s, rep, pg, thorough, ms);)
            VF_FULL(if(thorough){
                evalConfig<double, K5<double,7>, 7>(h, b, s, rep, pg, thorough, ms);
                evalConfig<double, K5<double,8>, 8>(h, b, s, rep, pg, thorough, ms);
                if(b < 2) evalConfig<float, K5<float,4>, 4>(h, b, s, rep, pg, thorough, ms);
                if(b < 2) evalConfig<float, K5<float,6>, 6>(h, b, s, rep, pg, thorough, ms);
            })
            ms.checkMonotone(rep);
        }
        for(int h = 2 ; h <= (thorough ? 4 : 3) ; ++h) for(int b = 0 ; b < 2 ; ++b) for(int s = 1 ; s <= 3 ; ++s) for(long extra = -1 ; extra <= (thorough ? 2 : 1) ; ++extra){
            if(rep.timeUp()){ rep.cut(); return; }
            if(!mine()) continue;
            evalPeriodicNum<double, K5<double,4>, 4>(h, b, s, extra, rep, pg, ms);
            VF_FULL(evalPeriodicNum<double, K5<double,6>, 6>(h, b, s, extra, rep, pg, ms);)
        }
        for(int h = 1 ; h <= maxH ; ++h) for(int b = 0 ; b < 2 ; ++b) for(int s = 0 ; s < 3 ; ++s){
            if(rep.timeUp()){ rep.cut(); return; }
            if(!mine()) continue;
            evalTsmNum<double, K5<double,4>, 4>(h, b, s, (s+1)%4, rep, pg, ms);
            VF_FULL(evalTsmNum<double, K5<double,6>, 6>(h, b, s, (s+2)%4, rep, pg, ms);)
        }
#endif
        for(const auto& kv : ms.worstPot) rep.counters["max_err_pot_1e-9 " + kv.first] = (unsigned long)(kv.second * 1e9L);
        for(const auto& kv : ms.worstForce) rep.counters["max_err_force_1e-9 " + kv.first] = (unsigned long)(kv.second * 1e9L);
    }, 600, 10);
}
