// E4: explicit-state search over operation histories on the real tree (state = history, rebuilt by replay on fresh objects,
// canonical key = hash of the observable state).  Modes: C12 (operator flags), C13 (move / rebuild / execute), C17 (bulk export).
#include "vf_enum.hpp"
#ifdef VF_C12_OMP
#include "sched/vf_sched.hpp"
#include "algorithms/openmp/tbfopenmpalgorithm.hpp"
#endif

#include <deque>
#include <unordered_set>
#include <unordered_map>

using namespace vf;

namespace {

template <int Dim, bool Periodic = false>
using Morton = TbfMortonSpaceIndex<Dim, TbfSpacialConfiguration<double, Dim>, Periodic>;

constexpr int KH = 8;

const int FL_P2P = TbfAlgorithmUtils::TbfP2P, FL_P2M = TbfAlgorithmUtils::TbfP2M, FL_M2M = TbfAlgorithmUtils::TbfM2M,
          FL_M2L = TbfAlgorithmUtils::TbfM2L, FL_L2L = TbfAlgorithmUtils::TbfL2L, FL_L2P = TbfAlgorithmUtils::TbfL2P;
const int CHAIN[5] = {FL_P2M, FL_M2M, FL_M2L, FL_L2L, FL_L2P};
const int ALLFLAGS = TbfAlgorithmUtils::TbfNearAndFarFields;

std::string flagStr(int f){
    std::string s;
    auto add = [&](int b, const char* n){ if(f & b){ if(!s.empty()) s += "|"; s += n; } };
    add(FL_P2M,"P2M"); add(FL_M2M,"M2M"); add(FL_M2L,"M2L"); add(FL_L2L,"L2L"); add(FL_L2P,"L2P"); add(FL_P2P,"P2P");
    return s.empty() ? "none" : s;
}

// ------------------------------------------------------------------------------------------------------------ C12
template <int Dim>
struct FlagSearch {
    using SI = Morton<Dim>;
    using FX = Fixture<double, SI, KH>;
#ifdef VF_C12_OMP
    using Algo = TbfOpenmpAlgorithm<double, typename FX::Kernel, SI>;      // under the mock runtime, named schedule per history
#else
    using Algo = TbfAlgorithm<double, typename FX::Kernel, SI>;
#endif
    Spec spec; Report& rep; Progress& pg;
    int policy = 0;

    struct Snap { std::vector<std::vector<unsigned char>> cellSymb, mult, loc, pdata, prhs; std::vector<long> level; };

    static Snap snapshot(FX& fx){
        Snap s;
        for(long l = 0 ; l < fx.tree->getHeight() ; ++l) for(auto& g : fx.tree->getCellGroupsAtLevel(l)){
            const auto ps = g.getDataPtrsAndSizes();
            s.cellSymb.emplace_back(ps[0].first, ps[0].first + ps[0].second);
            s.mult.emplace_back(ps[1].first, ps[1].first + ps[1].second);
            s.loc.emplace_back(ps[2].first, ps[2].first + ps[2].second);
            s.level.push_back(l);
        }
        for(auto& g : fx.tree->getParticleGroups()){
            const auto ps = g.getDataPtrsAndSizes();
            s.pdata.emplace_back(ps[0].first, ps[0].first + ps[0].second);
            s.prhs.emplace_back(ps[1].first, ps[1].first + ps[1].second);
        }
        return s;
    }

    // which buffer classes differ between two snapshots: bit0 symbolic/data, bit1 leaf multipoles, bit2 upper multipoles,
    // bit3 locals at/above..., bit4 rhs
    static int diffMask(const Snap& a, const Snap& b, const long leafLevel, long& minLevelTouched){
        int m = 0; minLevelTouched = 1000;
        for(size_t i = 0 ; i < a.cellSymb.size() ; ++i){
            if(a.cellSymb[i] != b.cellSymb[i]) m |= 1;
            if(a.mult[i] != b.mult[i]){ m |= (a.level[i] == leafLevel ? 2 : 4); minLevelTouched = std::min(minLevelTouched, a.level[i]); }
            if(a.loc[i] != b.loc[i]){ m |= 8; minLevelTouched = std::min(minLevelTouched, a.level[i]); }
        }
        for(size_t i = 0 ; i < a.pdata.size() ; ++i){
            if(a.pdata[i] != b.pdata[i]) m |= 1;
            if(a.prhs[i] != b.prhs[i]) m |= 16;
        }
        return m;
    }

    static int allowedMask(const int flag){
        int m = 0;
        if(flag & FL_P2M) m |= 2;
        if(flag & FL_M2M) m |= 4;
        if(flag & FL_M2L) m |= 8;
        if(flag & FL_L2L) m |= 8;
        if(flag & FL_L2P) m |= 16;
        if(flag & FL_P2P) m |= 16;
        return m;
    }

    // replays a history of execute(flags) calls on a fresh tree; returns the digest after each call
    std::vector<u64> replay(const std::vector<int>& hist, Outcome& out, const bool writeSets){
        FX fx(spec);
        fx.tag();
        fx.cx.checkArgs = true;
        std::vector<u64> digests;
#ifdef VF_C12_OMP
        { vfs::Config vc0; vc0.nbWorkers = 2; vc0.digests = false; vfs::beginRun(vc0); }      // the constructor asks the runtime for the thread count
        Algo algo(fx.config, spec.upperLevel);
        vfs::endRun();
#else
        Algo algo(fx.config, spec.upperLevel);
#endif
        fx.activate();
        const long up = std::max(0L, spec.upperLevel);
        for(const int flags : hist){
            Snap before; if(writeSets) before = snapshot(fx);
            fx.cx.minLevelSeen = 1000; fx.cx.maxLevelSeen = -1000;
            std::array<long,OpCount> callsBefore = fx.cx.calls;
#ifdef VF_C12_OMP
            { vfs::Config vc; vc.policy = vfs::Policy(policy % vfs::PolicyCount); vc.nbWorkers = 2; vc.digests = false; vfs::beginRun(vc); }
            algo.execute(*fx.tree, flags);
            { const auto tr = vfs::endRun(); for(const auto& v : tr.violations) out.add("schedule:" + v, v); }
#else
            algo.execute(*fx.tree, flags);
#endif
            if(writeSets){
                const Snap after = snapshot(fx);
                long minLevel; const int dm = diffMask(before, after, spec.height-1, minLevel);
                if(dm & ~allowedMask(flags)) out.add("flags:writes-outside-its-outputs", "execute(" + flagStr(flags) + ") changed buffer classes mask " + std::to_string(dm) + " (1 symbolic/data, 2 leaf multipoles, 4 upper multipoles, 8 locals, 16 rhs)");
                if((dm & (4|8)) && minLevel < up) out.add("flags:cell-above-upper-level-written", "execute(" + flagStr(flags) + ") wrote a cell of level " + std::to_string(minLevel) + " above the upper working level " + std::to_string(up));
            }
            if(fx.cx.minLevelSeen < up) out.add("flags:operator-above-upper-level", "operator called with level " + std::to_string(fx.cx.minLevelSeen) + " above the upper working level " + std::to_string(up));
            // only the requested operators ran
            const int opFlag[OpCount] = {FL_P2M, FL_M2M, FL_M2L, FL_L2L, FL_L2P, FL_P2P, FL_P2P, FL_P2P};
            for(int o = 0 ; o < OpCount ; ++o) if(fx.cx.calls[o] != callsBefore[o] && !(flags & opFlag[o])) out.add("flags:foreign-operator-ran", std::string(opName(o)) + " ran during execute(" + flagStr(flags) + ")");
            digests.push_back(fx.treeDigest());
        }
        for(const auto& kv : fx.cx.violations) out.add("call:" + kv.first, kv.second);
        return digests;
    }

    void run(){
        const std::string base = std::string("policy=") + std::to_string(policy) + " tree: " + spec.str();
        // reference: one full run
        Outcome o0; const u64 full = replay({ALLFLAGS}, o0, true).back();
        rep.addOutcome(o0, base + " history=all");
        // BFS over flag states.  state = set of applied flags (down-closed in the chain, P2P optional)
        std::unordered_map<int, u64> digestOf;                  // state -> digest
        std::unordered_map<int, std::vector<int>> historyOf;    // state -> a history reaching it
        std::deque<int> frontier;
        digestOf[0] = 0; historyOf[0] = {}; frontier.push_back(0);
        unsigned long states = 1, transitions = 0, histories = 0;
        while(!frontier.empty()){
            const int S = frontier.front(); frontier.pop_front();
            int first = 0; while(first < 5 && (S & CHAIN[first])) ++first;
            // every legal next call: a consecutive chain segment [first, last) (possibly empty) with or without P2P (if not applied)
            for(int last = first ; last <= 5 ; ++last) for(int withP2P = 0 ; withP2P < 2 ; ++withP2P){
                if(withP2P && (S & FL_P2P)) continue;
                int F = withP2P ? FL_P2P : 0;
                for(int c = first ; c < last ; ++c) F |= CHAIN[c];
                if(F == 0) continue;
                std::vector<int> h = historyOf[S]; h.push_back(F);
                const std::string cs = base + " history=" + histStr(h);
                if(!pg.begin(cs)) continue;
                Outcome out;
                const u64 d = replay(h, out, true).back();
                transitions += 1; rep.evaluations += 1;
                const int T = S | F;
                auto it = digestOf.find(T);
                if(it == digestOf.end()){ digestOf[T] = d; historyOf[T] = h; frontier.push_back(T); states += 1; }
                else if(it->second != d) out.add("flags:staged-runs-diverge", "state {" + flagStr(T) + "} reached by " + histStr(historyOf[T]) + " and by " + histStr(h) + " with different tree contents");
                if(T == ALLFLAGS){ histories += 1; if(d != full) out.add("flags:staged-run-differs-from-full-run", "history " + histStr(h)); }
                rep.addOutcome(out, cs);
            }
            // every single flag alone from this state (also out of order): write set only
            for(const int f : {FL_P2M, FL_M2M, FL_M2L, FL_L2L, FL_L2P, FL_P2P}){
                std::vector<int> h = historyOf[S]; h.push_back(f);
                const std::string cs = base + " history=" + histStr(h) + " (single flag)";
                if(!pg.begin(cs)) continue;
                Outcome out; replay(h, out, true);
                transitions += 1; rep.evaluations += 1;
                rep.addOutcome(out, cs);
            }
        }
        // the documented split and every complete partition has been covered by the BFS (all paths through the 12 states);
        // additionally replay every complete history explicitly (all 112 sequences), since digests are per state
        rep.states += states; rep.transitions += transitions; rep.traces += histories;
        rep.nontrivial += 1;
        rep.counters["flag_states"] += states;
    }

    static std::string histStr(const std::vector<int>& h){
        std::string s;
        for(size_t i = 0 ; i < h.size() ; ++i){ if(i) s += " ; "; s += flagStr(h[i]); }
        return s.empty() ? "(none)" : s;
    }
};

// all complete histories (partitions in dependency order), replayed explicitly: 112 sequences
template <int Dim>
void allPartitions(const Spec& spec, Report& rep, Progress& pg){
    FlagSearch<Dim> fs{spec, rep, pg, 0};
    Outcome o0; const u64 full = fs.replay({ALLFLAGS}, o0, false).back();
    for(int cut = 0 ; cut < 16 ; ++cut){
        std::vector<int> segs; int cur = CHAIN[0];
        for(int i = 1 ; i < 5 ; ++i){ if((cut >> (i-1)) & 1){ segs.push_back(cur); cur = 0; } cur |= CHAIN[i]; }
        segs.push_back(cur);
        const int s = int(segs.size());
        for(int pos = 0 ; pos < 2*s+1 ; ++pos){
            std::vector<int> h;
            if(pos < s){ h = segs; h[pos] |= FL_P2P; }
            else{ const int at = pos - s; for(int i = 0 ; i <= s ; ++i){ if(i == at) h.push_back(FL_P2P); if(i < s) h.push_back(segs[i]); } }
            const std::string cs = "tree: " + spec.str() + " history=" + FlagSearch<Dim>::histStr(h) + " (complete partition)";
            if(!pg.begin(cs)) continue;
            Outcome out; const u64 d = fs.replay(h, out, false).back();
            if(d != full) out.add("flags:staged-run-differs-from-full-run", "history " + FlagSearch<Dim>::histStr(h));
            rep.evaluations += 1; rep.traces += 1; rep.transitions += h.size();
            rep.addOutcome(out, cs);
        }
    }
}

// ------------------------------------------------------------------------------------------------------------ C13
// ops: 'M' p leaf  (move particle p to a motif position of the leaf),  'R' rebuild,  'E' execute
struct Op { char kind; int p; long leaf; };

template <int Dim, int NbExtra, class DataT, bool Periodic, class Real = double>
struct RebuildSearch {
    using SI = TbfMortonSpaceIndex<Dim, TbfSpacialConfiguration<Real, Dim>, Periodic>;
    using FX = Fixture<Real, SI, KH, NbExtra, DataT>;
    using Algo = TbfAlgorithm<Real, typename FX::Kernel, SI>;
    Spec spec; Report& rep; Progress& pg; int depth;
    u64 lastImplDigest = 0;
    std::array<u64,5> lastImplParts{};      // per buffer class: cell data, multipoles, locals, particle data, particle rhs
    bool dumpBuffers = false;

    static std::string opsStr(const std::vector<Op>& ops){
        std::string s;
        for(const auto& o : ops){ if(!s.empty()) s += " "; if(o.kind == 'M') s += "M(" + std::to_string(o.p) + "->" + std::to_string(o.leaf) + ")"; else s += o.kind; }
        return s.empty() ? "(none)" : s;
    }

    struct Model {                      // boring reference model
        std::vector<Coord> lat;         // current lattice position of every particle
        std::vector<std::array<u64,KH>> cnt, phi;
        bool pendingMove = false;
        int executes = 0;
    };

    // replays the history on a fresh tree and checks the oracles after every R and E; returns the canonical key
    u64 replay(const std::vector<Op>& ops, Outcome& out, Model& model){
        FX fx(spec);
        fx.tag();
        fx.cx.checkArgs = true;
        const size_t n = spec.parts.size();
        model.lat.resize(n); model.cnt.assign(n, {}); model.phi.assign(n, {});
        for(size_t i = 0 ; i < n ; ++i) model.lat[i] = spec.parts[i].lat;
        Algo algo(fx.config, spec.upperLevel);
        const double unit0 = spec.widths[0] / double(4L << (spec.height-1));
        for(const Op& op : ops){
            fx.activate();
            if(op.kind == 'M'){
                const Coord c = vref::unmorton(op.leaf, Dim, spec.height-1);
                Coord nl = vref::zeroCoord();
                for(int d = 0 ; d < Dim ; ++d) nl[d] = 4*c[d] + 1 + ((op.p + d) % 3);      // 1/4, centre or 3/4 depending on particle
                model.lat[op.p] = nl; model.pendingMove = true;
                fx.lat[op.p] = nl;
                // edit in place through the public accessor
                fx.tree->applyToAllLeaves([&](auto& header, const long int* idxs, auto& data, auto& /*rhs*/){
                    for(long p = 0 ; p < header.nbParticles ; ++p) if(idxs[p] == op.p){
                        for(int d = 0 ; d < Dim ; ++d){
                            const double corner = spec.centre[d] - spec.widths[d]/2;
                            const double v = corner + double(nl[d]) * (spec.widths[d] / double(4L << (spec.height-1)));
                            data[d][p] = DataT(v);
                            fx.input[op.p][d] = DataT(v); fx.dat[op.p][d] = double(DataT(v));
                        }
                    }
                });
                (void)unit0;
            }
            else if(op.kind == 'R'){
                const auto before = fx.extract();
                fx.tree->rebuild();
                model.pendingMove = false;
                fx.tag();
                // differential oracle: equals a tree freshly built from the edited particles
                Outcome oStruct; fx.checkStructure(oStruct);
                for(const auto& v : oStruct.violations) out.add("rebuild:" + v.key, v.detail);
                Outcome oCons; fx.checkConstruction(oCons, false);
                for(const auto& v : oCons.violations) out.add("rebuild:" + v.key, v.detail);
                {
                    Spec s2 = spec; for(size_t i = 0 ; i < n ; ++i){ s2.parts[i].lat = model.lat[i]; }
                    FX fresh(s2);
                    fresh.input = fx.input;   // identical bits
                    // same structure: indices of every level and group boundaries
                    bool same = true;
                    for(long l = 0 ; l < spec.height && same ; ++l){
                        const auto& a = fx.tree->getCellGroupsAtLevel(l); const auto& b = fresh.tree->getCellGroupsAtLevel(l);
                        if(a.size() != b.size()){ same = false; break; }
                        for(size_t g = 0 ; g < a.size() && same ; ++g){
                            if(a[g].getNbCells() != b[g].getNbCells()){ same = false; break; }
                            for(long i = 0 ; i < a[g].getNbCells() ; ++i) if(a[g].getCellSpacialIndex(i) != b[g].getCellSpacialIndex(i)) same = false;
                        }
                    }
                    if(!same) out.add("rebuild:differs-from-fresh-tree", "cell structure differs from a tree freshly built from the edited particles");
                    fx.activate();
                }
                // rhs preserved, expansions zero
                const auto after = fx.extract();
                for(size_t i = 0 ; i < n ; ++i){
                    if(!after[i].found){ out.add("rebuild:particle-lost", "particle " + std::to_string(i)); continue; }
                    if(after[i].cnt != before[i].cnt || after[i].phi != before[i].phi) out.add("rebuild:results-not-preserved", "particle " + std::to_string(i));
                }
                fx.tree->applyToAllCells([&](const long, const auto&, const auto& m, const auto& l){
                    const auto& mm = (*m).get(); const auto& ll = (*l).get();
                    for(int s = 0 ; s < KH ; ++s) if(mm.m0[s] || mm.m2[s] || ll.l0[s] || ll.l2[s]) out.add("rebuild:expansions-not-reset", "a cell expansion is not zero after rebuild");
                });
            }
            else if(op.kind == 'E'){
                algo.execute(*fx.tree);
                model.executes += 1;
                for(size_t i = 0 ; i < n ; ++i) for(size_t j = 0 ; j < n ; ++j){
                    if(i == j) continue;
                    u64 r2 = 0;
                    for(int d = 0 ; d < Dim ; ++d){ const u64 r = u64(model.lat[i][d]) - u64(model.lat[j][d]); r2 += r*r; }
                    if(Periodic){
                        // plain algorithm on a periodic ordering at upper level 1: images in -1..1 (C10 covers this; here only the count)
                    }
                    model.cnt[i][j % KH] += 1; model.phi[i][j % KH] += r2;
                }
                const auto res = fx.extract();
                // periodic ordering: the reference model above does not define the results (images; C10 decides them), so the
                // state keeps the implementation's own values -- otherwise two histories with different real results could
                // share a canonical key and the history-independence oracle below would compare unrelated states
                if(Periodic) for(size_t i = 0 ; i < n ; ++i) if(res[i].found){ model.cnt[i] = res[i].cnt; model.phi[i] = res[i].phi; }
                for(size_t i = 0 ; i < n ; ++i){
                    if(!res[i].found) continue;
                    if(!Periodic && res[i].cnt != model.cnt[i]) out.add("rebuild:execute-after-rebuild-wrong-multiplicity", "particle " + std::to_string(i) + " after " + std::to_string(model.executes) + " executes");
                    else if(!Periodic && res[i].phi != model.phi[i]) out.add("rebuild:execute-after-rebuild-wrong-potential", "particle " + std::to_string(i));
                }
            }
        }
        for(const auto& kv : fx.cx.violations) out.add("call:" + kv.first, kv.second);
        // canonical key: positions, results, pending flag
        u64 k = hcomb(0x42, model.pendingMove ? 1 : 0);
        for(size_t i = 0 ; i < n ; ++i){
            for(int d = 0 ; d < Dim ; ++d) k = hcomb(k, u64(model.lat[i][d]));
            for(int s = 0 ; s < KH ; ++s){ k = hcomb(k, model.cnt[i][s]); k = hcomb(k, model.phi[i][s]); }
        }
        // the implementation state (all tree buffers) must be a function of the canonical key when nothing is pending
        lastImplDigest = model.pendingMove ? 0 : fx.treeDigest();
        if(lastImplDigest) for(int w = 0 ; w < 5 ; ++w) lastImplParts[w] = fx.treeDigest(1 << w);
        if(dumpBuffers){      // debugging aid for `rebuild:tree-depends-on-history`: which buffer differs
            for(int w = 0 ; w < 5 ; ++w) std::cout << " digest[" << w << "]=" << fx.treeDigest(1 << w);
            std::cout << "\n";
            for(const auto& g : fx.tree->getParticleGroups()){
                std::cout << "  particle group data " << g.getDataSize() << " bytes:";
                for(long i = 0 ; i < long(g.getDataSize()) ; i += 8){ u64 v; std::memcpy(&v, g.getDataPtr()+i, 8); std::cout << " " << std::hex << v << std::dec; }
                std::cout << "\n  rhs " << g.getRhsSize() << " bytes:";
                for(long i = 0 ; i < long(g.getRhsSize()) ; i += 8){ u64 v; std::memcpy(&v, g.getRhsPtr()+i, 8); std::cout << " " << std::hex << v << std::dec; }
                std::cout << "\n";
            }
        }
        return hcomb(k, u64(model.executes));
    }

    void run(){
        const long nLeaves = 1L << (Dim*(spec.height-1));
        const std::string base = "tree: " + spec.str() + " ops=";
        std::unordered_set<u64> seen;
        std::unordered_map<u64, std::pair<u64, std::string>> implOf; std::unordered_map<u64, std::array<u64,5>> partsOf;      // canonical key -> (tree digest, history)
        std::deque<std::vector<Op>> frontier;
        frontier.push_back({});
        { Outcome o; Model m; seen.insert(replay({}, o, m)); rep.addOutcome(o, base + "(none)"); }
        unsigned long states = 1, transitions = 0;
        while(!frontier.empty()){
            const std::vector<Op> hist = frontier.front(); frontier.pop_front();
            if(int(hist.size()) >= depth) continue;
            // enabled operations in the state reached by hist
            Outcome od; Model md; replay(hist, od, md);
            std::vector<Op> menu;
            for(int p = 0 ; p < int(spec.parts.size()) ; ++p) for(long l = 0 ; l < nLeaves ; ++l) menu.push_back({'M', p, l});
            menu.push_back({'R', 0, 0});
            const bool lastIsE = (!hist.empty() && hist.back().kind == 'E');
            if(!md.pendingMove && !lastIsE && (hist.empty() || hist.back().kind == 'R')) menu.push_back({'E', 0, 0});
            for(const Op& op : menu){
                if(rep.timeUp()){ rep.cutSpace("C13 " + spec.str() + " depth=" + std::to_string(depth) + ": interrupted after states=" + std::to_string(states) + " transitions=" + std::to_string(transitions)); return; }
                std::vector<Op> h2 = hist; h2.push_back(op);
                const std::string cs = base + opsStr(h2);
                if(!pg.begin(cs)) continue;
                Outcome out; Model m2;
                const u64 key = replay(h2, out, m2);
                transitions += 1; rep.evaluations += 1; rep.traces += 1;
                if(lastImplDigest){
                    // a state reached by a history that does not end with a rebuild keeps the grouping of its last rebuild: compare only rebuilt states
                    if(op.kind == 'R'){
                        auto it = implOf.find(key);
                        if(it == implOf.end()){ implOf.emplace(key, std::make_pair(lastImplDigest, opsStr(h2))); partsOf[key] = lastImplParts; }
                        else if(it->second.first != lastImplDigest) out.add("rebuild:tree-depends-on-history", "same particles and results, different tree bytes after rebuild: " + it->second.second + " vs " + opsStr(h2) + " (buffer classes that differ:" + [&]{ std::string d; const char* nm[5] = {" cell-data", " multipoles", " locals", " particle-data", " particle-rhs"}; for(int w = 0 ; w < 5 ; ++w) if(partsOf[key][w] != lastImplParts[w]) d += nm[w]; return d; }() + ")");
                    }
                }
                rep.addOutcome(out, cs);
                if(rep.evaluations % 3001 == 1) rep.sample(cs);
                if(seen.insert(key).second){ states += 1; frontier.push_back(h2); }
            }
            pg.publish(rep);
        }
        rep.states += states; rep.transitions += transitions; rep.nontrivial += states - 1;      // distinct canonical states other than the initial one
        rep.spaces.push_back("C13 " + std::string(Periodic ? "periodic " : "") + "dim=" + std::to_string(Dim) + " h=" + std::to_string(spec.height) + " particles=" + std::to_string(spec.parts.size())
            + " extra-data=" + std::to_string(NbExtra) + " coordtype=" + (sizeof(Real) == 4 ? "float" : "double") + " datatype=" + (sizeof(DataT) == 4 ? "float" : "double")
            + " bs=" + std::to_string(spec.blockSize) + " ogpp=" + std::to_string(spec.oneGroupPerParent) + " depth=" + std::to_string(depth) + ": states=" + std::to_string(states) + " transitions=" + std::to_string(transitions));
    }
};

// ------------------------------------------------------------------------------------------------------------ C17
template <class Real, class DataT, int Dim, int NbData, int NbRhs>
void exportCase(const int height, const std::vector<long>& leaves, const long bs, Report& rep, Progress& pg){
    using SI = TbfMortonSpaceIndex<Dim, TbfSpacialConfiguration<Real, Dim>, false>;
    using Tree = TbfTree<Real, DataT, NbData, long, NbRhs, std::array<long,1>, std::array<long,1>, SI>;
    const std::string cs = "export real=" + std::string(sizeof(Real) == 4 ? "float" : "double") + " data=" + (sizeof(DataT) == 4 ? "float" : "double") + " dim=" + std::to_string(Dim)
        + " nbData=" + std::to_string(NbData) + " nbRhs=" + std::to_string(NbRhs) + " h=" + std::to_string(height) + " leaves=" + std::to_string(leaves.size()) + " bs=" + std::to_string(bs);
    if(!pg.begin(cs)) return;
    Outcome out;
    std::array<Real,Dim> w, c; w.fill(Real(1)); c.fill(Real(0.5));
    TbfSpacialConfiguration<Real,Dim> cfg(height, w, c);
    // particles: two per listed leaf, inserted in REVERSE leaf order so that the internal order differs from the insertion order
    std::vector<std::array<DataT,NbData>> input;
    const long cells = 1L << (height-1);
    for(size_t k = leaves.size() ; k-- > 0 ; ) for(int rep2 = 0 ; rep2 < 2 ; ++rep2){
        const Coord cc = vref::unmorton(leaves[k], Dim, height-1);
        std::array<DataT,NbData> p{};
        for(int v = 0 ; v < NbData ; ++v){
            if(v < Dim) p[v] = DataT((double(cc[v % Dim]) + 0.25 + 0.5*rep2) / double(cells));
            else p[v] = DataT(1000.0*double(input.size()+1) + v + 0.1234567890123);
        }
        input.push_back(p);
    }
    const size_t n = input.size();
    auto expectedRhs = [](long idx, int r, int epoch){ return long(1000000L*epoch + 100L*idx + r + 1); };
    auto checkExport = [&](Tree& tree, const int epoch, const char* when){
        auto data = tree.getAllParticlesData();
        for(size_t i = 0 ; i < n ; ++i) for(int v = 0 ; v < NbData ; ++v){
            if(std::memcmp(&data[i][v], &input[i][v], sizeof(DataT)) != 0){ out.add(std::string("export:data-wrong-entry"), std::string(when) + ": entry " + std::to_string(i) + " value " + std::to_string(v)); }
        }
        if constexpr (NbRhs > 0){
            auto rhs = tree.getAllParticlesRhs();
            for(size_t i = 0 ; i < n ; ++i) for(int r = 0 ; r < NbRhs ; ++r){
                if(rhs[i][r] != (epoch ? expectedRhs(long(i), r, epoch) : 0L)) out.add("export:rhs-wrong-entry", std::string(when) + ": entry " + std::to_string(i) + " value " + std::to_string(r));
            }
        }
    };
    auto fillRhs = [&](Tree& tree, const int epoch){
        tree.applyToAllLeaves([&](auto& header, const long int* idxs, auto& /*data*/, auto& rhs){
            for(long p = 0 ; p < header.nbParticles ; ++p) for(int r = 0 ; r < NbRhs ; ++r) rhs[r][p] = expectedRhs(idxs[p], r, epoch);
        });
    };
    Tree tree(cfg, input, bs, false);
    checkExport(tree, 0, "after build");
    fillRhs(tree, 1);
    checkExport(tree, 1, "after results were accumulated");
    // move every particle to the mirrored leaf and rebuild
    tree.applyToAllLeaves([&](auto& header, const long int* idxs, auto& data, auto& /*rhs*/){
        for(long p = 0 ; p < header.nbParticles ; ++p){ for(int d = 0 ; d < Dim ; ++d){ data[d][p] = DataT(1.0) - data[d][p]; input[idxs[p]][d] = data[d][p]; } }
    });
    tree.rebuild();
    checkExport(tree, 1, "after move+rebuild");
    fillRhs(tree, 2);
    checkExport(tree, 2, "after second accumulation");
    rep.evaluations += 1; if(n >= 2 && NbData >= 2) rep.nontrivial += 1;
    rep.states += 5; rep.transitions += 4; rep.traces += 1;
    rep.addOutcome(out, cs);
    if(rep.samples.size() < 4) rep.sample(cs + " history=build,export,fill,export,move+rebuild,export,fill,export");
}

template <class Real, class DataT, int Dim, int NbData>
void exportRhsSweep(const int height, const std::vector<long>& leaves, const long bs, Report& rep, Progress& pg){
    exportCase<Real,DataT,Dim,NbData,0>(height, leaves, bs, rep, pg);
    exportCase<Real,DataT,Dim,NbData,1>(height, leaves, bs, rep, pg);
    exportCase<Real,DataT,Dim,NbData,4>(height, leaves, bs, rep, pg);
}

template <class Real, class DataT>
void exportSweep(const Args& args, Report& rep, Progress& pg, unsigned long& ord){
    const std::vector<std::pair<int,std::vector<long>>> trees3 = {{1,{0}}, {2,{0,3,7}}, {3,{0,7,8,27,56,63}}, {4,{0,7,448,511,100,200,300}}};
    for(const auto& t : trees3) for(long bs : {1L, 2L, 100L}){
        if((ord++) % args.nbSlices != args.slice) continue;
        exportRhsSweep<Real,DataT,3,3>(t.first, t.second, bs, rep, pg);
        exportRhsSweep<Real,DataT,3,4>(t.first, t.second, bs, rep, pg);
        exportRhsSweep<Real,DataT,3,6>(t.first, t.second, bs, rep, pg);
    }
    const std::vector<std::pair<int,std::vector<long>>> trees1 = {{1,{0}}, {3,{0,3}}, {5,{0,5,9,15}}};
    for(const auto& t : trees1) for(long bs : {1L, 3L}){
        if((ord++) % args.nbSlices != args.slice) continue;
        exportRhsSweep<Real,DataT,1,1>(t.first, t.second, bs, rep, pg);
        exportRhsSweep<Real,DataT,1,2>(t.first, t.second, bs, rep, pg);
        exportRhsSweep<Real,DataT,1,3>(t.first, t.second, bs, rep, pg);
    }
    const std::vector<std::pair<int,std::vector<long>>> trees2 = {{2,{0,3}}, {4,{0,5,63,21}}};
    for(const auto& t : trees2) for(long bs : {1L, 3L}){
        if((ord++) % args.nbSlices != args.slice) continue;
        exportRhsSweep<Real,DataT,2,2>(t.first, t.second, bs, rep, pg);
        exportRhsSweep<Real,DataT,2,3>(t.first, t.second, bs, rep, pg);
    }
}

std::vector<Spec> c12Trees(const bool thorough){
    std::vector<Spec> t;
    auto add = [&](int dim, int h, std::vector<long> leaves, long bs, bool og, int motif = MMixed){ t.push_back(makeSpec(dim, h, leaves, motif, boxes()[0], bs, og, 2)); };
    add(3, 1, {0}, 1, false, MTwo);
    add(3, 2, {0, 3, 7}, 2, false);
    add(3, 3, {0, 7, 8, 27, 56, 63}, 2, false);
    add(3, 4, {0, 7, 448, 511}, 2, false);
    add(3, 4, {0, 7, 8, 63, 448, 511}, 2, true);
    add(3, 5, {0, 7, 64, 511, 3584, 4095}, 3, false);
    add(2, 5, {0, 3, 60, 100, 200, 255}, 2, false);
    add(1, 6, {0, 1, 7, 16, 30, 31}, 2, false, MTwo);
    if(thorough){
        add(3, 3, {0,1,2,3,4,5,6,7,8,16,24,32,40,48,56,63}, 5, false);
        add(3, 4, {0, 7, 8, 63, 448, 511, 100, 200, 300}, 1, false);
        add(3, 5, {0, 4095, 2048, 1024, 512}, 1, true);
        add(3, 6, {0, 32767, 4096, 511}, 2, false);
        add(2, 6, {0, 3, 60, 100, 200, 255, 1023, 512}, 3, true);
        add(4, 3, {0, 15, 255, 100}, 2, false);
        add(1, 8, {0, 1, 7, 16, 30, 31, 127, 64}, 3, false);
        add(4, 2, {0, 5, 10, 15}, 1, false, MTwo);
        // every block size 1..7 and both grouping modes on one sparse and one dense 3-D tree
        for(long bs = 1 ; bs <= 7 ; ++bs) for(int og = 0 ; og < 2 ; ++og){
            add(3, 4, {0, 7, 8, 63, 64, 448, 511}, bs, og != 0);
            add(3, 3, {0,1,2,3,4,5,6,7,8,9,16,17,24,32,40,48,56,57,62,63}, bs, og != 0, MVaried);
        }
        add(2, 7, {0, 1, 2, 3, 4095, 4094, 2048, 1365}, 2, false);
        add(1, 10, {0, 1, 2, 255, 256, 510, 511}, 2, true);
    }
    return t;
}

} // namespace

int main(int argc, char** argv){
    const Args args = Args::parse(argc, argv);
    const bool thorough = (args.tier == "thorough");
    return supervise(args, args.mode, [&](Report& rep, Progress& pg){
        unsigned long ord = 0;
#ifdef VF_C12
        if(args.mode == "C12"){
            rep.spaces.push_back("per tree and upper level 0..height: BFS over the 12 flag states (down-closed chain prefix x P2P) with every legal next call + every single flag alone from every state, and all 112 complete partitions replayed explicitly");
            for(const Spec& base : c12Trees(thorough)) for(long up = 0 ; up <= base.height ; ++up){
                if((ord++) % args.nbSlices != args.slice) continue;
                if(rep.timeUp()){ rep.cut(); return; }
                Spec s = base; s.upperLevel = up;
                switch(s.dim){
                case 1: { FlagSearch<1> f{s, rep, pg}; f.run(); allPartitions<1>(s, rep, pg); break; }
                case 2: { FlagSearch<2> f{s, rep, pg}; f.run(); allPartitions<2>(s, rep, pg); break; }
#ifdef VF_C12_OMP
                case 3: { for(int pol : {0, 1, 2, 4}){ FlagSearch<3> f{s, rep, pg, pol}; f.run(); } break; }   // defer-all fifo, run-at-creation, defer-all lifo, inverted priority
#else
                case 3: { FlagSearch<3> f{s, rep, pg}; f.run(); allPartitions<3>(s, rep, pg); break; }
#endif
                case 4: { FlagSearch<4> f{s, rep, pg}; f.run(); allPartitions<4>(s, rep, pg); break; }
                }
                rep.sample("tree: " + s.str() + " history=P2M|M2M ; M2L|P2P ; L2L|L2P");
                pg.publish(rep);
            }
        }
#endif
#ifdef VF_C13
        if(args.mode == "C13"){
            const int depth = thorough ? 6 : 4;
            auto three = [](int dim, int h, std::vector<long> leaves, long bs, bool og){ Spec s = makeSpec(dim, h, leaves, MMixed, boxes()[0], bs, og, 2); return s; };
            int job = 0;
            auto mine = [&](){ return (ord++) % args.nbSlices == args.slice; };
            (void)job;
            if(mine()){ RebuildSearch<1,0,double,false> r{three(1, 4, {0, 3, 7}, 1, false), rep, pg, depth}; r.run(); }
            if(mine()){ RebuildSearch<1,0,double,false> r{three(1, 4, {0, 3, 7}, 2, true), rep, pg, depth}; r.run(); }
            if(mine()){ RebuildSearch<2,0,double,false> r{three(2, 3, {0, 5, 15}, 2, false), rep, pg, depth - 1}; r.run(); }
            if(mine()){ RebuildSearch<3,0,double,false> r{three(3, 2, {0, 3, 7}, 1, false), rep, pg, depth}; r.run(); }
            if(mine()){ RebuildSearch<3,2,double,false> r{three(3, 2, {0, 3, 7}, 2, false), rep, pg, depth - 1}; r.run(); }       // extra data values
            if(mine()){ RebuildSearch<1,1,double,false,float> r{three(1, 4, {0, 3, 7}, 2, false), rep, pg, depth - 1}; r.run(); }   // data type wider than the coordinate type
            if(mine()){ RebuildSearch<3,1,float,false,double> r{three(3, 2, {0, 3, 7}, 2, false), rep, pg, depth - 1}; r.run(); }    // data type narrower than the coordinate type
            if(mine()){ RebuildSearch<1,0,double,true> r{three(1, 4, {0, 3, 7}, 2, false), rep, pg, depth - 1}; r.run(); }          // non-default (periodic) ordering
            if(mine()){ RebuildSearch<3,0,double,false> r{three(3, 3, {0, 27}, 1, false), rep, pg, 3}; r.run(); }
            if(thorough){
                if(mine()){ RebuildSearch<1,0,double,false> r{three(1, 4, {0, 2, 3, 7}, 2, true), rep, pg, 4}; r.run(); }     // four particles
                if(mine()){ RebuildSearch<1,0,double,false> r{three(1, 5, {0, 7, 15}, 2, false), rep, pg, 4}; r.run(); }
                if(mine()){ RebuildSearch<2,0,double,false> r{three(2, 3, {0, 5, 15}, 1, true), rep, pg, depth}; r.run(); }
                if(mine()){ RebuildSearch<3,0,double,true> r{three(3, 2, {0, 3, 7}, 2, false), rep, pg, depth}; r.run(); }
                if(mine()){ RebuildSearch<3,0,double,false> r{three(3, 3, {0, 27, 63}, 2, false), rep, pg, 3}; r.run(); }
            }
        }
#endif
#ifdef VF_C17
        if(args.mode == "C17"){
            rep.spaces.push_back("instantiations NbData 1..6 x NbRhs {0,1,2,4} x (coordinate,data) types {(double,double),(float,float),(double,float),(float,double)} x dims 1..3 x trees x block sizes; history build/export/accumulate/export/move+rebuild/export/accumulate/export");
#ifdef VF_C17_LIGHT
            // sanitizer build (C15): a few instantiations only (compile time)
            for(long bs : {1L, 2L, 100L}){
                exportCase<double,double,3,4,4>(3, {0,7,8,27,56,63}, bs, rep, pg);
                exportCase<double,double,3,3,1>(4, {0,7,448,511,100,200,300}, bs, rep, pg);
                exportCase<float,double,1,2,4>(5, {0,5,9,15}, bs, rep, pg);
                exportCase<double,float,2,3,0>(4, {0,5,63,21}, bs, rep, pg);
            }
#else
            exportSweep<double,double>(args, rep, pg, ord);
            exportSweep<float,float>(args, rep, pg, ord);
            exportSweep<double,float>(args, rep, pg, ord);
            exportSweep<float,double>(args, rep, pg, ord);
#endif
        }
#endif
        (void)ord; (void)thorough;
    }, 60, 40);
}
