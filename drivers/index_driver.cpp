// C11: the space-filling-curve index algebra against the geometric definitions (harness/vf_ref.hpp).
// Every cell of every level up to a bounded height; the boundary lattice of cells up to the largest height whose
// indices fit 63 bits; per-cell and per-group list builders with/without self-inclusion and upper-half filters.
#include "spacial/tbfmortonspaceindex.hpp"
#include "spacial/tbfhilbertspaceindex.hpp"
#include "spacial/tbfspacialconfiguration.hpp"
#include "vf_enum.hpp"

using namespace vf;

std::string vfs_prefix(const std::vector<long>& v){ std::string s; for(size_t i = 0 ; i < v.size() ; ++i){ if(i) s += ","; s += std::to_string(v[i]); } return s; }

namespace {

// minimal group of cells for the per-group builders (the builders only use these accessors)
struct MockGroup {
    std::vector<long> cells;      // sorted indices
    long getNbCells() const { return long(cells.size()); }
    long getNbLeaves() const { return long(cells.size()); }
    long getCellSpacialIndex(long i) const { return cells[i]; }
    long getLeafSpacialIndex(long i) const { return cells[i]; }
    long getStartingSpacialIndex() const { return cells.front(); }
    long getEndingSpacialIndex() const { return cells.back(); }
    std::optional<long> getElementFromSpacialIndex(long idx) const {
        auto it = std::lower_bound(cells.begin(), cells.end(), idx);
        if(it == cells.end() || *it != idx) return std::nullopt;
        return long(it - cells.begin());
    }
};

template <class SI> struct Traits;
template <long D, bool P> struct Traits<TbfMortonSpaceIndex<D, TbfSpacialConfiguration<double,D>, P>> { static constexpr bool morton = true; static const char* name(){ return P ? "morton-periodic" : "morton"; } };
template <long D, bool P> struct Traits<TbfHilbertSpaceIndex<D, TbfSpacialConfiguration<double,D>, P>> { static constexpr bool morton = false; static const char* name(){ return P ? "hilbert-periodic" : "hilbert"; } };

template <class SI>
struct IndexChecker {
    static constexpr int Dim = int(SI::Dim);
    static constexpr bool Periodic = SI::IsPeriodic;
    static constexpr bool IsMorton = Traits<SI>::morton;
    int height;
    SI sp;
    Report& rep;
    std::string tag;

    static TbfSpacialConfiguration<double,Dim> cfg(int h){
        std::array<double,Dim> w, c; w.fill(1.0); c.fill(0.5);
        return TbfSpacialConfiguration<double,Dim>(h, w, c);
    }
    IndexChecker(int h, Report& r) : height(h), sp(cfg(h)), rep(r){
        tag = std::string(Traits<SI>::name()) + " dim=" + std::to_string(Dim) + " height=" + std::to_string(h);
    }

    Coord toCoord(const std::array<long,Dim>& a) const { Coord c = vref::zeroCoord(); for(int d = 0 ; d < Dim ; ++d) c[d] = a[d]; return c; }
    std::array<long,Dim> toArr(const Coord& c) const { std::array<long,Dim> a; for(int d = 0 ; d < Dim ; ++d) a[d] = c[d]; return a; }

    std::string caseStr(const int level, const Coord& c, const char* what) const {
        return tag + " level=" + std::to_string(level) + " cell=" + vref::coordStr(c, Dim) + " " + what;
    }

    // one cell: bijection, parent/child algebra, per-cell lists
    void checkCell(const int level, const Coord& c, Outcome& out){
        const long limit = 1L << level;
        const long idx = sp.getIndexFromBoxPos(toArr(c));
        if(IsMorton && idx != vref::morton(c, Dim, level)) out.add("bijection:encode", "getIndexFromBoxPos differs from the interleaving definition");
        if(idx < 0 || idx >= sp.getUpperBound(level)) out.add("bijection:upper-bound", "index " + std::to_string(idx) + " not below getUpperBound(level)");
        if(toCoord(sp.getBoxPosFromIndex(idx)) != c) out.add("bijection:decode-encode", "getBoxPosFromIndex(getIndexFromBoxPos(c)) != c");
        if(level >= 1){
            const long pidx = sp.getParentIndex(idx);
            const Coord pc = toCoord(sp.getBoxPosFromIndex(pidx));
            if(pc != vref::parentCoord(c, Dim)) out.add("hierarchy:parent-does-not-contain-child", "parent coordinates " + vref::coordStr(pc, Dim) + " expected " + vref::coordStr(vref::parentCoord(c, Dim), Dim));
            const long code = sp.childPositionFromParent(idx);
            if(code != vref::octant(c, Dim)) out.add("hierarchy:child-code-is-not-the-octant", "code " + std::to_string(code) + " octant " + std::to_string(vref::octant(c, Dim)));
            if(sp.getChildIndexFromParent(pidx, code) != idx) out.add("hierarchy:child-from-parent", "getChildIndexFromParent(parent, code) != index");
        }
        // neighbour list
        for(int excl = 0 ; excl < 2 ; ++excl){
            const auto got = sp.getNeighborListForIndex(idx, level, excl != 0);
            std::vector<long> exp;
            for(const auto& r : vref::neighbours(c, Dim, limit, Periodic)){
                if(excl && !(vref::relCode(r.offset, Dim, 3) > vref::ipow(3, Dim)/2)) continue;
                exp.push_back(sp.getIndexFromBoxPos(toArr(r.coord)));
            }
            std::vector<long> g(got.begin(), got.end());
            std::sort(g.begin(), g.end()); std::sort(exp.begin(), exp.end());
            if(g != exp) out.add(std::string("neighbours:per-cell") + (excl ? "-upper-half" : ""), "got " + std::to_string(g.size()) + " cells, definition has " + std::to_string(exp.size()));
        }
        // interaction list
        {
            const auto got = sp.getInteractionListForIndex(idx, level);
            std::vector<long> exp;
            if(level >= (Periodic ? 1 : 2)) for(const auto& r : vref::interactions(c, Dim, level, Periodic)) exp.push_back(sp.getIndexFromBoxPos(toArr(r.coord)));
            std::vector<long> g(got.begin(), got.end());
            std::sort(g.begin(), g.end()); std::sort(exp.begin(), exp.end());
            if(g != exp) out.add("interactions:per-cell", "got " + std::to_string(g.size()) + " cells, definition has " + std::to_string(exp.size()));
        }
    }

    // group builders on one group: every entry is (target, source, code) with source = wrap(target + decode(code))
    void checkGroup(const int level, const MockGroup& grp, Outcome& out){
        const long limit = 1L << level;
        for(int self = 0 ; self < 2 ; ++self){
            // interaction lists
            {
                const auto lists = sp.getInteractionListForBlock(grp, level, self != 0);
                std::multiset<std::array<long,3>> got, exp;     // (target, source, code)
                for(const auto& it : lists.first){
                    got.insert({it.indexTarget, it.indexSrc, it.arrayIndexSrc});
                    if(grp.cells[it.globalTargetPos] != it.indexTarget) out.add("group:target-position", "globalTargetPos does not designate the target");
                    if(it.indexSrc < grp.getStartingSpacialIndex() || it.indexSrc > grp.getEndingSpacialIndex()) out.add("group:internal-outside-range", "internal entry outside the group's index range");
                    if(self && !grp.getElementFromSpacialIndex(it.indexSrc)) out.add("group:internal-absent", "internal entry absent from the group although self-inclusion test is on");
                }
                for(const auto& it : lists.second){
                    got.insert({it.indexTarget, it.indexSrc, it.arrayIndexSrc});
                    if(grp.cells[it.globalTargetPos] != it.indexTarget) out.add("group:target-position", "globalTargetPos does not designate the target");
                    if(it.indexSrc >= grp.getStartingSpacialIndex() && it.indexSrc <= grp.getEndingSpacialIndex()) out.add("group:external-inside-range", "external entry inside the group's index range");
                }
                for(const long t : grp.cells){
                    const Coord c = toCoord(sp.getBoxPosFromIndex(t));
                    if(level >= (Periodic ? 1 : 2)) for(const auto& r : vref::interactions(c, Dim, level, Periodic)){
                        const long s = sp.getIndexFromBoxPos(toArr(r.coord));
                        const bool inRange = (s >= grp.getStartingSpacialIndex() && s <= grp.getEndingSpacialIndex());
                        if(inRange && self && !grp.getElementFromSpacialIndex(s)) continue;      // filtered out
                        exp.insert({t, s, vref::relCode(r.offset, Dim, 7)});
                    }
                }
                if(got != exp) out.add(std::string("interactions:per-group") + (self ? "-self-test" : ""), "got " + std::to_string(got.size()) + " (target,source,code) entries, definition has " + std::to_string(exp.size()));
            }
            for(int excl = 0 ; excl < 2 ; ++excl){
                const auto lists = sp.getNeighborListForBlock(grp, level, excl != 0, self != 0);
                std::multiset<std::array<long,3>> got, exp;
                for(const auto& it : lists.first){ got.insert({it.indexTarget, it.indexSrc, it.arrayIndexSrc}); if(grp.cells[it.globalTargetPos] != it.indexTarget) out.add("group:target-position", "globalTargetPos does not designate the target"); }
                for(const auto& it : lists.second){ got.insert({it.indexTarget, it.indexSrc, it.arrayIndexSrc}); if(grp.cells[it.globalTargetPos] != it.indexTarget) out.add("group:target-position", "globalTargetPos does not designate the target"); }
                for(const long t : grp.cells){
                    const Coord c = toCoord(sp.getBoxPosFromIndex(t));
                    for(const auto& r : vref::neighbours(c, Dim, limit, Periodic)){
                        const long code = vref::relCode(r.offset, Dim, 3);
                        if(excl && !(code > vref::ipow(3, Dim)/2)) continue;
                        const long s = sp.getIndexFromBoxPos(toArr(r.coord));
                        const bool inRange = (s >= grp.getStartingSpacialIndex() && s <= grp.getEndingSpacialIndex());
                        if(inRange && self && !grp.getElementFromSpacialIndex(s)) continue;
                        exp.insert({t, s, code});
                    }
                }
                if(got != exp) out.add(std::string("neighbours:per-group") + (excl ? "-upper-half" : "") + (self ? "-self-test" : ""), "got " + std::to_string(got.size()) + " entries, definition has " + std::to_string(exp.size()));
            }
        }
        // self list
        {
            const auto selfList = sp.getSelfListForBlock(grp);
            Coord zero = vref::zeroCoord();
            if(long(selfList.size()) != grp.getNbLeaves()) out.add("group:self-list", "wrong size");
            for(size_t i = 0 ; i < selfList.size() ; ++i){
                if(selfList[i].indexSrc != grp.cells[i] || selfList[i].indexTarget != grp.cells[i] || selfList[i].globalTargetPos != long(i) || selfList[i].arrayIndexSrc != vref::relCode(zero, Dim, 3))
                    out.add("group:self-list", "entry " + std::to_string(i));
            }
        }
    }

    void checkCodes(Outcome& out){
        for(long k = 0 ; k < vref::ipow(7, Dim) ; ++k){
            const auto p = SI::getRelativePosFromInteractionIndex(k);
            if(toCoord(p) != vref::relDecode(k, Dim, 7)) out.add("codes:transfer-decode", "code " + std::to_string(k));
            if(SI::getInteractionIndexFromRelativePos(p) != k) out.add("codes:transfer-encode-decode", "code " + std::to_string(k));
        }
        for(long k = 0 ; k < vref::ipow(3, Dim) ; ++k){
            const auto p = SI::getRelativePosFromNeighborIndex(k);
            if(toCoord(p) != vref::relDecode(k, Dim, 3)) out.add("codes:neighbour-decode", "code " + std::to_string(k));
            if(SI::getNeighborIndexFromRelativePos(p) != k) out.add("codes:neighbour-encode-decode", "code " + std::to_string(k));
        }
        if(SI::getNbChildrenPerCell() != (1L << Dim)) out.add("codes:nb-children", "");
        if(SI::getNbInteractionsPerCell() != vref::ipow(6, Dim) - vref::ipow(3, Dim)) out.add("codes:nb-interactions", "");
        if(SI::getNbNeighborsPerLeaf() != vref::ipow(3, Dim) - 1) out.add("codes:nb-neighbours", "");
    }
};

// every cell of every level of a tree of the given height; groups = every contiguous run of <= 3 existing cells when all
// cells exist, plus runs over "every other cell" (gaps inside group ranges)
template <class SI>
void exhaustiveHeight(const int height, const Args& args, Report& rep, Progress& pg, unsigned long& ordinal){
    constexpr int Dim = int(SI::Dim);
    IndexChecker<SI> ck(height, rep);
    rep.spaces.push_back(ck.tag + ": every cell of every level (per-cell API), group builders on runs of <= 3 cells");
    {
        if((ordinal++) % args.nbSlices == args.slice && pg.begin(ck.tag + " position codes")){
            Outcome out; ck.checkCodes(out); rep.evaluations += 1; rep.nontrivial += 1; rep.addOutcome(out, ck.tag + " position codes", std::string(Traits<SI>::name()) + ":");
        }
    }
    for(int level = 0 ; level < height ; ++level){
        const long nb = 1L << (level*Dim);
        // chunks of 64 cells per work unit
        for(long first = 0 ; first < nb ; first += 64){
            if((ordinal++) % args.nbSlices != args.slice) continue;
            if(rep.timeUp()){ rep.cut(); return; }
            for(long m = first ; m < std::min(nb, first+64) ; ++m){
                const Coord c = vref::unmorton(m, Dim, level);
                const std::string cs = ck.caseStr(level, c, "per-cell");
                if(!pg.begin(cs)) continue;
                Outcome out; ck.checkCell(level, c, out);
                rep.evaluations += 1; if(level >= 2) rep.nontrivial += 1;
                if(rep.evaluations % 1009 == 1) rep.sample(cs);
                rep.addOutcome(out, cs, std::string(Traits<SI>::name()) + ":");
            }
            pg.publish(rep);
        }
    }
    // groups: small levels only (<= 512 cells)
    for(int level = 0 ; level < height ; ++level){
        const long nb = 1L << (level*Dim);
        if(nb > 512) break;
        if((ordinal++) % args.nbSlices != args.slice) continue;
        // existing cells: all, and every other one (in index order of this ordering)
        std::vector<long> all;
        for(long m = 0 ; m < nb ; ++m) all.push_back(ck.sp.getIndexFromBoxPos(ck.toArr(vref::unmorton(m, Dim, level))));
        std::sort(all.begin(), all.end());
        for(int stride = 1 ; stride <= 3 ; ++stride){
            std::vector<long> exist;
            for(size_t i = 0 ; i < all.size() ; i += stride) exist.push_back(all[i]);
            for(size_t len = 1 ; len <= 3 ; ++len) for(size_t s = 0 ; s + len <= exist.size() ; ++s){
                MockGroup g; g.cells.assign(exist.begin()+s, exist.begin()+s+len);
                const std::string cs = ck.tag + " level=" + std::to_string(level) + " group=" + vfs_prefix(g.cells);
                if(!pg.begin(cs)) continue;
                Outcome out; ck.checkGroup(level, g, out);
                rep.evaluations += 1; rep.nontrivial += 1;
                if(rep.evaluations % 1013 == 1) rep.sample(cs);
                rep.addOutcome(out, cs, std::string(Traits<SI>::name()) + ":");
            }
        }
        pg.publish(rep);
    }
}

// boundary lattice at a high level: coordinates from {0,1,2,3, mid-1, mid, mid+1, max-3..max} per dimension
template <class SI>
void latticeLevel(const int level, const Args& args, Report& rep, Progress& pg, unsigned long& ordinal){
    constexpr int Dim = int(SI::Dim);
    const int height = level + 1;
    IndexChecker<SI> ck(height, rep);
    rep.spaces.push_back(ck.tag + " level=" + std::to_string(level) + ": boundary lattice {0..3, mid-1..mid+1, max-3..max}^dim");
    const long limit = 1L << level, mid = limit/2;
    std::vector<long> vals;
    for(long v : {0L,1L,2L,3L,mid-1,mid,mid+1,limit-4,limit-3,limit-2,limit-1}) if(v >= 0 && v < limit && std::find(vals.begin(), vals.end(), v) == vals.end()) vals.push_back(v);
    std::vector<size_t> it(Dim, 0);
    while(true){
        Coord c = vref::zeroCoord();
        for(int d = 0 ; d < Dim ; ++d) c[d] = vals[it[d]];
        if((ordinal++) % args.nbSlices == args.slice){
            const std::string cs = ck.caseStr(level, c, "per-cell (lattice)");
            if(pg.begin(cs)){
                Outcome out; ck.checkCell(level, c, out);
                MockGroup g; g.cells = {ck.sp.getIndexFromBoxPos(ck.toArr(c))};
                ck.checkGroup(level, g, out);
                rep.evaluations += 1; rep.nontrivial += 1;
                rep.addOutcome(out, cs, std::string(Traits<SI>::name()) + ":");
            }
        }
        int d = Dim-1;
        while(d >= 0 && ++it[d] == vals.size()){ it[d] = 0; --d; }
        if(d < 0) break;
    }
    pg.publish(rep);
}

} // namespace


template <int D, bool P> using Mo = TbfMortonSpaceIndex<D, TbfSpacialConfiguration<double,D>, P>;
using Hi = TbfHilbertSpaceIndex<3, TbfSpacialConfiguration<double,3>, false>;

int main(int argc, char** argv){
    const Args args = Args::parse(argc, argv);
    const bool thorough = (args.tier == "thorough");
    return supervise(args, "C11", [&](Report& rep, Progress& pg){
        unsigned long ord = 0;
        const int h1 = thorough ? 18 : 11, h2 = thorough ? 10 : 6, h3 = thorough ? 8 : 4, h4 = thorough ? 6 : 3;
        exhaustiveHeight<Mo<1,false>>(h1, args, rep, pg, ord);
        exhaustiveHeight<Mo<1,true>>(h1, args, rep, pg, ord);
        exhaustiveHeight<Mo<2,false>>(h2, args, rep, pg, ord); exhaustiveHeight<Mo<2,true>>(h2, args, rep, pg, ord);
        exhaustiveHeight<Mo<3,false>>(h3, args, rep, pg, ord); exhaustiveHeight<Mo<3,true>>(h3, args, rep, pg, ord);
        exhaustiveHeight<Mo<4,false>>(h4, args, rep, pg, ord); exhaustiveHeight<Mo<4,true>>(h4, args, rep, pg, ord);
        exhaustiveHeight<Hi>(thorough ? 7 : 4, args, rep, pg, ord);
        // high levels, boundary lattice: up to the largest level whose indices fit 63 bits
        for(int l : {12, 20, 30, 31, 32, 40, 62}){ latticeLevel<Mo<1,false>>(l, args, rep, pg, ord); latticeLevel<Mo<1,true>>(l, args, rep, pg, ord); }
        for(int l : {8, 15, 16, 20, 30, 31}){ latticeLevel<Mo<2,false>>(l, args, rep, pg, ord); latticeLevel<Mo<2,true>>(l, args, rep, pg, ord); }
        for(int l : {6, 10, 15, 20}){ latticeLevel<Mo<3,false>>(l, args, rep, pg, ord); latticeLevel<Mo<3,true>>(l, args, rep, pg, ord); }
        for(int l : {4, 8, 12, 15}){ latticeLevel<Mo<4,false>>(l, args, rep, pg, ord); latticeLevel<Mo<4,true>>(l, args, rep, pg, ord); }
        for(int l : {6, 10, 15, 20}){ latticeLevel<Hi>(l, args, rep, pg, ord); }
    }, 90, 60);
}
