// C19: a unit that uses ONLY the Hilbert ordering (no Morton header), with the shipped test kernel
#include "spacial/tbfhilbertspaceindex.hpp"
#include "spacial/tbfspacialconfiguration.hpp"
#include "core/tbftree.hpp"
#include "core/tbftreetsm.hpp"
#include "kernels/testkernel/tbftestkernel.hpp"
#include "algorithms/sequential/tbfalgorithm.hpp"
#include "algorithms/sequential/tbfalgorithmtsm.hpp"
#include <iostream>
#include <fstream>
#include <string>
int main(int argc, char** argv){
    std::string out = "out.json";
    for(int i = 1 ; i+1 < argc ; ++i) if(std::string(argv[i]) == "--out") out = argv[i+1];
    using R = double; using SI = TbfHilbertSpaceIndex<3, TbfSpacialConfiguration<R,3>, false>;
    std::array<R,3> w{{1,1,1}}, c{{0.5,0.5,0.5}};
    long bad = 0, cases = 0;
    for(int h = 1 ; h <= 4 ; ++h){
        TbfSpacialConfiguration<R,3> cfg(h, w, c);
        std::vector<std::array<R,3>> pos;
        for(int i = 0 ; i < 40 ; ++i) pos.push_back({{R((i*7)%40+0.5)/40, R((i*11)%40+0.5)/40, R((i*3)%40+0.5)/40}});
        for(long bs : {-1L, 3L}){
            TbfTree<R,R,3,long,1,std::array<long,1>,std::array<long,1>,SI> tree(cfg, pos, bs);
            TbfAlgorithm<R,TbfTestKernel<R,SI>,SI> algo(cfg);
            algo.execute(tree); tree.rebuild();
            tree.applyToAllLeaves([&](auto&& hd, const long*, auto&&, auto&& rhs){ for(long p = 0 ; p < hd.nbParticles ; ++p){ ++cases; if(rhs[0][p] != 39) ++bad; } });
            TbfTreeTsm<R,R,3,long,1,std::array<long,1>,std::array<long,1>,SI> tsm(cfg, pos, pos, bs);
            TbfAlgorithmTsm<R,TbfTestKernel<R,SI>,SI> algot(cfg);
            algot.execute(tsm);
            tsm.applyToAllLeavesTarget([&](auto&& hd, const long*, auto&&, auto&& rhs){ for(long p = 0 ; p < hd.nbParticles ; ++p){ ++cases; if(rhs[0][p] != 40) ++bad; } });
        }
    }
    std::ofstream f(out);
    f << "{\"property\": \"C19\", \"evaluations\": " << cases << ", \"nontrivial\": " << cases << ", \"states\": 0, \"transitions\": 0, \"traces\": 0, \"exhaustive\": true, \"violations\": [";
    if(bad) f << "{\"key\": \"hilbert-only:wrong-count\", \"case\": \"hilbert-only unit, test kernel\", \"detail\": \"" << bad << " particles with a wrong interaction count\", \"count\": " << bad << "}";
    f << "], \"samples\": [\"hilbert-only unit: heights 1..4, 40 particles, automatic and explicit block size, rebuild, single and target/source trees\"], \"spaces\": [\"hilbert-only translation unit\"], \"counters\": {}}\n";
    return 0;
}
