// C09 (target/source mode, sequential executor) and C10 (periodic mode: periodic ordering + periodic top tree, single tree
// and target/source), bounded-exhaustive over source/target occupancy patterns x configurations with the exact kernel.
#include "vf_enum.hpp"
#include "algorithms/periodic/tbfalgorithmperiodictoptree.hpp"
#include "algorithms/periodic/tbfalgorithmperiodictoptreetsm.hpp"
#ifdef VF_C10_OMP
#include "sched/vf_sched.hpp"
#include "algorithms/openmp/tbfopenmpalgorithm.hpp"
#include "algorithms/openmp/tbfopenmpalgorithmtsm.hpp"
#endif

using namespace vf;

namespace {

constexpr int KT = 8;

template <int Dim, bool Periodic>
using SIx = TbfMortonSpaceIndex<Dim, TbfSpacialConfiguration<double, Dim>, Periodic>;

std::vector<Particle> partsFor(const int dim, const int height, const std::vector<long>& leaves, const int motif, const long ordinalShift){
    std::vector<Particle> ps;
    for(size_t i = 0 ; i < leaves.size() ; ++i){
        const Coord c = vref::unmorton(leaves[i], dim, height-1);
        addMotifParticles(ps, c, dim, height, motif, i+1 == leaves.size(), long(i) + ordinalShift);
    }
    return ps;
}

// ------------------------------------------------------------------------------------------------------------- C09
template <int Dim>
void evalTsm(const Spec& spec, Report& rep){
    using SI = SIx<Dim,false>;
    using FX = Fixture<double, SI, KT>;
    using Algo = TbfAlgorithmTsm<double, typename FX::Kernel, SI>;
    Outcome out;
    FX fx(spec, true);
    // construction of both trees (C06/C07 for source and target trees)
    fx.checkConstructionOf(out, fx.treeTsm->treeSource, fx.inputSrc, fx.latSrc, "source-", false);
    fx.checkConstructionOf(out, fx.treeTsm->treeTarget, fx.input, fx.lat, "target-", true);
    fx.checkStructureOf(out, fx.treeTsm->treeSource, fx.latSrc, "source-");
    fx.checkStructureOf(out, fx.treeTsm->treeTarget, fx.lat, "target-");
    if((1L << (Dim*(spec.height-1))) <= 512){
        rep.counters["lookup_queries"] += fx.checkLookupOf(out, fx.treeTsm->treeSource, "source-");
        rep.counters["lookup_queries"] += fx.checkLookupOf(out, fx.treeTsm->treeTarget, "target-");
        // the forwarding lookups of the target/source tree must designate the same group of the right side
        auto& T = *fx.treeTsm;
        for(long l = 0 ; l < spec.height ; ++l){
            const long ub = 1L << (l*Dim);
            for(long q = -1 ; q <= ub ; ++q){
                auto ws = T.findGroupWithCellSource(l, q); auto ds = T.treeSource.findGroupWithCell(l, q);
                auto wt = T.findGroupWithCellTarget(l, q); auto dt = T.treeTarget.findGroupWithCell(l, q);
                if(bool(ws) != bool(ds) || (ws && (static_cast<const void*>(&ws->first.get()) != static_cast<const void*>(&ds->first.get()) || ws->second != ds->second))) out.add("source-lookup:wrapper-cell", "level " + std::to_string(l) + " index " + std::to_string(q));
                if(bool(wt) != bool(dt) || (wt && (static_cast<const void*>(&wt->first.get()) != static_cast<const void*>(&dt->first.get()) || wt->second != dt->second))) out.add("target-lookup:wrapper-cell", "level " + std::to_string(l) + " index " + std::to_string(q));
            }
        }
        const long ubl = 1L << ((spec.height-1)*Dim);
        for(long q = -1 ; q <= ubl ; ++q){
            auto ws = T.findGroupWithLeafSource(q); auto ds = T.treeSource.findGroupWithLeaf(q);
            auto wt = T.findGroupWithLeafTarget(q); auto dt = T.treeTarget.findGroupWithLeaf(q);
            if(bool(ws) != bool(ds) || (ws && (static_cast<const void*>(&ws->first.get()) != static_cast<const void*>(&ds->first.get()) || ws->second != ds->second))) out.add("source-lookup:wrapper-leaf", "index " + std::to_string(q));
            if(bool(wt) != bool(dt) || (wt && (static_cast<const void*>(&wt->first.get()) != static_cast<const void*>(&dt->first.get()) || wt->second != dt->second))) out.add("target-lookup:wrapper-leaf", "index " + std::to_string(q));
        }
    }
    fx.tag();
    fx.cx.checkArgs = true;
    const u64 srcParticlesBefore = fx.tsmSourceParticleDigest();
    {
        fx.activate();
        auto algo = std::make_unique<Algo>(fx.config, spec.upperLevel);
        algo->execute(*fx.treeTsm);
    }
    if(fx.tsmSourceParticleDigest() != srcParticlesBefore) out.add("tsm:source-particles-modified", "source particle buffers changed by execute()");
    const auto res = fx.extractTsmTargets();
    fx.checkPairsGeneral(out, res, true, 0, 0, true, true);
    for(const auto& kv : fx.cx.violations) out.add("call:" + kv.first, kv.second);
    if(fx.cx.calls[OpP2P] || fx.cx.calls[OpP2PInner]) out.add("tsm:targets-interact-with-each-other", "P2P/P2PInner called in target/source mode");
    rep.evaluations += 1;
    if(!spec.parts.empty() && !spec.srcParts.empty() && (fx.cx.elems[OpM2L] > 0 || fx.cx.calls[OpP2PTsm] > 0)) rep.nontrivial += 1;
    rep.counters["m2l_elementary"] += fx.cx.elems[OpM2L];
    rep.counters["p2ptsm_calls"] += fx.cx.calls[OpP2PTsm];
    if(!out.ok()) rep.addOutcome(out, spec.str());
}

// all pairs (source pattern, target pattern)
template <int Dim>
void tsmSpace(const int height, const int maxSrc, const int maxTgt, const std::vector<int>& motifs, const bool allBs, const Args& args, Report& rep, Progress& pg, const bool light = false){
    const long nLeaves = 1L << (Dim*(height-1));
    rep.spaces.push_back("C09 dim=" + std::to_string(Dim) + " height=" + std::to_string(height) + " source patterns=" + (maxSrc ? "subsets<=" + std::to_string(maxSrc) : std::string("all"))
        + " x target patterns=" + (maxTgt ? "subsets<=" + std::to_string(maxTgt) : std::string("all")) + " (" + std::to_string(nbPatterns(nLeaves, maxSrc)) + " x " + std::to_string(nbPatterns(nLeaves, maxTgt)) + ") x motifs x block sizes x grouping modes");
    std::vector<std::vector<long>> tgtPatterns;
    forEachPattern(nLeaves, maxTgt, 0, 1, [&](const std::vector<long>& t){ tgtPatterns.push_back(t); });
    forEachPattern(nLeaves, maxSrc, args.slice, args.nbSlices, [&](const std::vector<long>& src){
        for(const auto& tgt : tgtPatterns){
            if(rep.timeUp()){ rep.cut(); return; }
            for(const int motif : motifs){
                const long n = long(std::max(src.size(), tgt.size()));
                const std::vector<long> bss = light ? std::vector<long>{1, 100} : allBs ? blockSizesFor(n, true) : std::vector<long>{1, 2, 3, 100};
                for(const long bs : bss) for(int og = 0 ; og < (light ? 1 : 2) ; ++og){
                    Spec s; s.dim = Dim; s.height = height; s.blockSize = bs; s.oneGroupPerParent = (og != 0); s.upperLevel = 2;
                    s.srcParts = partsFor(Dim, height, src, motif, 0);
                    // identical positions on both sides for the centre motif; shifted otherwise
                    s.parts = partsFor(Dim, height, tgt, motif, motif == MCentre ? 0 : 1);
                    if(!pg.begin(s.str())) continue;
                    evalTsm<Dim>(s, rep);
                    if(rep.evaluations % 40009 == 1) rep.sample(s.str());
                }
            }
        }
        pg.publish(rep);
    });
}

// ------------------------------------------------------------------------------------------------------------- C10
template <int Dim>
void evalPeriodic(const Spec& spec, const long extra, const bool tsm, Report& rep){
    using SI = SIx<Dim,true>;
    using FX = Fixture<double, SI, KT>;
    Outcome out;
    FX fx(spec, tsm);
    fx.tag();
    fx.cx.checkArgs = true;
    long lo = 0, hi = 0, totalRep = 0;
    fx.activate();
#ifdef VF_C10_OMP
    // OpenMP executors under the mock runtime; the schedule of the three execute() calls is a named schedule picked from the case ordinal
    static unsigned long caseOrdinal = 0; ++caseOrdinal;
    auto ompBegin = [&](int shift){ vfs::Config vc; vc.policy = vfs::Policy((caseOrdinal + shift) % vfs::PolicyCount); vc.nbWorkers = 2; vc.digests = false; vfs::beginRun(vc); };
    auto ompEnd = [&](){ const auto tr = vfs::endRun(); for(const auto& v : tr.violations) out.add("schedule:" + v, v); };
#define VF_OMP_EXEC(call, shift) do{ ompBegin(shift); call; ompEnd(); }while(0)
#else
#define VF_OMP_EXEC(call, shift) do{ call; }while(0)
#endif
    if(!tsm){
#ifdef VF_C10_OMP
        using Algo = TbfOpenmpAlgorithm<double, typename FX::Kernel, SI>;
#else
        using Algo = TbfAlgorithm<double, typename FX::Kernel, SI>;
#endif
        using Top = TbfAlgorithmPeriodicTopTree<double, typename FX::Kernel, typename FX::Mult, typename FX::Loc, SI>;
        std::unique_ptr<Algo> algo;
        VF_OMP_EXEC(algo = std::make_unique<Algo>(fx.config, TbfDefaultLastLevelPeriodic), 0);
        auto top = std::make_unique<Top>(fx.config, extra);
        VF_OMP_EXEC(algo->execute(*fx.tree, TbfAlgorithmUtils::TbfBottomToTopStages), 0);
        top->execute(*fx.tree);
        VF_OMP_EXEC(algo->execute(*fx.tree, TbfAlgorithmUtils::TbfTransferStages), 1);
        VF_OMP_EXEC(algo->execute(*fx.tree, TbfAlgorithmUtils::TbfTopToBottomStages), 2);
        const auto iv = top->getRepetitionsIntervals();
        lo = iv.first[0]; hi = iv.second[0]; totalRep = top->getNbTotalRepetitions();
        for(int d = 1 ; d < Dim ; ++d) if(iv.first[d] != lo || iv.second[d] != hi) out.add("periodic:interval-not-cubic", "");
        if(top->getNbRepetitionsPerDim() != hi - lo + 1) out.add("periodic:repetitions-per-dim-vs-interval", std::to_string(top->getNbRepetitionsPerDim()) + " vs interval " + std::to_string(lo) + ".." + std::to_string(hi));
    }
    else{
#ifdef VF_C10_OMP
        using Algo = TbfOpenmpAlgorithmTsm<double, typename FX::Kernel, SI>;
#else
        using Algo = TbfAlgorithmTsm<double, typename FX::Kernel, SI>;
#endif
        using Top = TbfAlgorithmPeriodicTopTreeTsm<double, typename FX::Kernel, typename FX::Mult, typename FX::Loc, SI>;
        std::unique_ptr<Algo> algo;
        VF_OMP_EXEC(algo = std::make_unique<Algo>(fx.config, TbfDefaultLastLevelPeriodic), 0);
        auto top = std::make_unique<Top>(fx.config, extra);
        VF_OMP_EXEC(algo->execute(*fx.treeTsm, TbfAlgorithmUtils::TbfBottomToTopStages), 0);
        top->execute(*fx.treeTsm);
        VF_OMP_EXEC(algo->execute(*fx.treeTsm, TbfAlgorithmUtils::TbfTransferStages), 1);
        VF_OMP_EXEC(algo->execute(*fx.treeTsm, TbfAlgorithmUtils::TbfTopToBottomStages), 2);
        const auto iv = top->getRepetitionsIntervals();
        lo = iv.first[0]; hi = iv.second[0]; totalRep = top->getNbTotalRepetitions();
        if(top->getNbRepetitionsPerDim() != hi - lo + 1) out.add("periodic:repetitions-per-dim-vs-interval", std::to_string(top->getNbRepetitionsPerDim()) + " vs interval " + std::to_string(lo) + ".." + std::to_string(hi));
    }
    long expTotal = 1; for(int d = 0 ; d < Dim ; ++d) expTotal *= (hi - lo + 1);
    if(totalRep != expTotal) out.add("periodic:total-repetitions-vs-interval", std::to_string(totalRep) + " vs " + std::to_string(expTotal));
    const auto res = tsm ? fx.extractTsmTargets() : fx.extract();
    fx.checkPairsGeneral(out, res, tsm, lo, hi, true, true);
    for(const auto& kv : fx.cx.violations) out.add("call:" + kv.first, kv.second);
    rep.evaluations += 1;
    if(spec.parts.size() >= 1) rep.nontrivial += 1;
    const std::string cs = std::string(tsm ? "tsm " : "single ") + "extra=" + std::to_string(extra) + " " + spec.str();
    if(!out.ok()) rep.addOutcome(out, cs, tsm ? "tsm-" : "");
    if(rep.evaluations % 20011 == 1) rep.sample(cs + " interval=" + std::to_string(lo) + ".." + std::to_string(hi));
}

template <int Dim>
void periodicSpace(const int height, const int maxSubset, const std::vector<int>& motifs, const std::vector<long>& extras, const std::vector<int>& boxIds,
                   const bool withTsm, const Args& args, Report& rep, Progress& pg){
    const long nLeaves = 1L << (Dim*(height-1));
    {
        std::string e; for(long x : extras) e += (e.empty() ? "" : ",") + std::to_string(x);
        rep.spaces.push_back("C10 dim=" + std::to_string(Dim) + " height=" + std::to_string(height) + " patterns=" + (maxSubset ? "subsets<=" + std::to_string(maxSubset) : std::string("all")) + " (" + std::to_string(nbPatterns(nLeaves, maxSubset)) + ") extra levels={" + e + "} x motifs (incl. particles on the periodic faces) x boxes x block sizes x grouping modes" + (withTsm ? " x {single tree, target/source}" : ""));
    }
    forEachPattern(nLeaves, maxSubset, args.slice, args.nbSlices, [&](const std::vector<long>& leaves){
        for(const int motif : motifs) for(const int boxId : boxIds) for(const long extra : extras){
            if(rep.timeUp()){ rep.cut(); return; }
            for(const long bs : blockSizesFor(long(leaves.size()), maxSubset == 0 || leaves.size() <= 4)) for(int og = 0 ; og < 2 ; ++og){
                Spec s = makeSpec(Dim, height, leaves, motif, boxes()[boxId], bs, og != 0, TbfDefaultLastLevelPeriodic);
                if(pg.begin("single extra=" + std::to_string(extra) + " " + s.str())) evalPeriodic<Dim>(s, extra, false, rep);
                if(withTsm){
                    Spec t = s;
                    t.srcParts = partsFor(Dim, height, leaves, motif == MCorner ? MMixed : MCorner, 1);     // sources: another motif on the same leaves
                    if(pg.begin("tsm extra=" + std::to_string(extra) + " " + t.str())) evalPeriodic<Dim>(t, extra, true, rep);
                    // sources on the mirrored leaves
                    std::vector<long> mirrored; for(long l : leaves) mirrored.push_back(nLeaves-1-l);
                    std::sort(mirrored.begin(), mirrored.end());
                    t.srcParts = partsFor(Dim, height, mirrored, motif, 0);
                    if(pg.begin("tsm-mirrored extra=" + std::to_string(extra) + " " + t.str())) evalPeriodic<Dim>(t, extra, true, rep);
                }
            }
        }
        pg.publish(rep);
    });
}

} // namespace

int main(int argc, char** argv){
    const Args args = Args::parse(argc, argv);
    const bool thorough = (args.tier == "thorough");
    return supervise(args, args.mode, [&](Report& rep, Progress& pg){
#ifdef VF_C09
        if(args.mode == "C09"){
            const std::vector<int> mAll = {MCentre, MMixed, MCorner, MTwo};
            const std::vector<int> mFew = {MCentre, MMixed};
            tsmSpace<1>(4, 0, 0, {MMixed}, false, args, rep, pg);     // all 255 x 255 pattern pairs
            tsmSpace<3>(2, 0, 0, {MMixed}, false, args, rep, pg);     // all 255 x 255
            tsmSpace<2>(2, 0, 0, mAll, true, args, rep, pg);
            tsmSpace<1>(3, 0, 0, mAll, true, args, rep, pg);
            tsmSpace<3>(3, 2, 1, {MMixed}, false, args, rep, pg);
            tsmSpace<3>(3, 1, 2, {MMixed}, false, args, rep, pg);
            tsmSpace<3>(4, 1, 1, {MMixed}, false, args, rep, pg, true);
            tsmSpace<2>(4, 1, 1, mFew, false, args, rep, pg);
            tsmSpace<1>(6, 2, 1, {MMixed}, false, args, rep, pg);
            if(thorough){
                tsmSpace<3>(4, 1, 1, mFew, false, args, rep, pg);
                tsmSpace<2>(4, 1, 2, mFew, false, args, rep, pg);
                tsmSpace<1>(6, 2, 2, {MMixed}, false, args, rep, pg);
                tsmSpace<3>(3, 2, 2, {MMixed}, false, args, rep, pg, true);
                tsmSpace<3>(5, 1, 1, {MMixed}, false, args, rep, pg, true);
                tsmSpace<2>(3, 0, 1, {MMixed, MVaried}, false, args, rep, pg);
                tsmSpace<4>(2, 0, 1, {MMixed}, false, args, rep, pg);
                tsmSpace<3>(2, 0, 0, {MCentre, MTwo, MVaried}, false, args, rep, pg);
                tsmSpace<1>(4, 0, 0, {MCentre, MTwo, MVaried}, true, args, rep, pg);
            }
        }
#endif
#ifdef VF_C10
        if(args.mode == "C10"){
            const std::vector<int> mP = {MMixed, MCorner, MUpperFace};
            const std::vector<long> ex = thorough ? std::vector<long>{-1,0,1,2,3,4,5} : std::vector<long>{-1,0,1,2,3};
            const std::vector<int> bD = {0, 3, 5};       // dyadic boxes: unit, per-dimension widths, 16 wide shifted
            periodicSpace<1>(2, 0, mP, ex, bD, true, args, rep, pg);
            periodicSpace<1>(3, 0, mP, ex, bD, true, args, rep, pg);
            periodicSpace<1>(4, 3, mP, ex, {0}, true, args, rep, pg);
            periodicSpace<2>(2, 0, mP, ex, {0, 3}, true, args, rep, pg);
            periodicSpace<2>(3, 2, mP, ex, {0}, true, args, rep, pg);
            periodicSpace<3>(2, 2, mP, ex, {0, 3}, true, args, rep, pg);
            periodicSpace<3>(3, 2, {MMixed, MUpperFace}, ex, {0}, true, args, rep, pg);
            periodicSpace<3>(4, 1, {MMixed, MUpperFace}, ex, {0}, true, args, rep, pg);
            if(thorough){
                periodicSpace<3>(2, 0, {MMixed}, ex, {0}, true, args, rep, pg);
                periodicSpace<3>(4, 2, {MMixed}, {-1,0,1,2}, {0}, false, args, rep, pg);
                periodicSpace<2>(4, 2, mP, ex, {0, 3}, true, args, rep, pg);
                periodicSpace<1>(5, 3, mP, ex, bD, true, args, rep, pg);
            }
        }
#endif
        (void)thorough;
    }, 60, 40);
}
