// C19: the build configuration that enables several task runtimes at once: the algorithm selecter header with
// TBF_USE_OPENMP, TBF_USE_SPECX and TBF_USE_STARPU all defined (mock runtime headers), every executor class instantiated
// and run once on a small tree under the controlled scheduler.
#define TBF_USE_OPENMP
#define TBF_USE_SPECX
#define TBF_USE_STARPU
#include "vf_enum.hpp"
#include "algorithms/tbfalgorithmselecter.hpp"
#include "sched/vf_sched.hpp"

using namespace vf;
using SI = TbfMortonSpaceIndex<3, TbfSpacialConfiguration<double,3>, false>;
using FX = Fixture<double, SI, 8>;

template <class Algo, bool TSM>
void runOne(const char* name, Report& rep){
    for(int policy = 0 ; policy < vfs::PolicyCount ; ++policy){
        Spec spec = makeSpec(3, 4, {0, 7, 8, 63, 448, 511}, MMixed, boxes()[0], 2, false, 2);
        if(TSM){ spec.srcParts = spec.parts; for(auto& p : spec.srcParts) p.lat[0] = 32 - p.lat[0]; }
        FX fx(spec, TSM);
        fx.tag(); fx.cx.checkArgs = true;
        vfs::Config cfg; cfg.policy = vfs::Policy(policy); cfg.nbWorkers = 3; cfg.digests = false;
        vfs::beginRun(cfg);
        {
            fx.activate();
            auto algo = std::make_unique<Algo>(fx.config, 2);
            if constexpr (TSM) algo->execute(*fx.treeTsm); else algo->execute(*fx.tree);
        }
        const auto tr = vfs::endRun();
        Outcome out;
        const auto res = TSM ? fx.extractTsmTargets() : fx.extract();
        fx.checkPairsGeneral(out, res, TSM, 0, 0, true, true);
        for(const auto& kv : fx.cx.violations) out.add("call:" + kv.first, kv.second);
        for(const auto& v : tr.violations) out.add("schedule:" + v, v);
        if(tr.tasks.empty()) out.add("selecter:no-task-submitted", "the executor submitted no task to the runtime");
        const std::string cs = std::string("selecter unit exec=") + name + " schedule=" + vfs::policyName(policy) + " " + spec.str();
        rep.evaluations += 1; rep.nontrivial += 1;
        rep.addOutcome(out, cs, "selecter:");
        if(policy == 0) rep.sample(cs + " -> " + std::to_string(tr.tasks.size()) + " tasks");
    }
}

int main(int argc, char** argv){
    const Args args = Args::parse(argc, argv);
    return supervise(args, "C19", [&](Report& rep, Progress& pg){
        rep.spaces.push_back("selecter translation unit: TBF_USE_OPENMP + TBF_USE_SPECX + TBF_USE_STARPU; six executor classes + both selecter aliases x five named schedules");
        if(!pg.begin("selecter unit")) return;
        using K = FX::Kernel;
        static_assert(std::is_same<TbfAlgorithmSelecter::type<double,K,SI>, TbfSmStarpuAlgorithm<double,K,SI>>::value, "StarPU has priority in the selecter");
        static_assert(std::is_same<TbfAlgorithmSelecterTsm::type<double,K,SI>, TbfSmStarpuAlgorithmTsm<double,K,SI>>::value, "StarPU has priority in the selecter");
        runOne<TbfAlgorithmSelecter::type<double,K,SI>, false>("selecter(StarPU)", rep);
        runOne<TbfAlgorithmSelecterTsm::type<double,K,SI>, true>("selecter-tsm(StarPU)", rep);
        runOne<TbfSmSpecxAlgorithm<double,K,SI>, false>("Specx", rep);
        runOne<TbfSmSpecxAlgorithmTsm<double,K,SI>, true>("Specx-tsm", rep);
        runOne<TbfOpenmpAlgorithm<double,K,SI>, false>("OpenMP", rep);
        runOne<TbfOpenmpAlgorithmTsm<double,K,SI>, true>("OpenMP-tsm", rep);
    }, 60, 5);
}
