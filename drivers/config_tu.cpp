// C19: one translation unit per documented template configuration.  Compiled with
//   -DVF_DIM=1..4 -DVF_REAL=float|double -DVF_ORDER=0(Morton)|1(periodic Morton)|2(Hilbert)
//   -DVF_EXEC=0(sequential)|1(OpenMP)|2(sequential target/source)|3(OpenMP target/source) [-DVF_DATA_OTHER]
// A unit that compiles then runs the exactly-once (C01), construction (C06) and rebuild (C13) oracles on a small fixed
// space with automatic and explicit block sizes, with and without rebuild.
#include "spacial/tbfhilbertspaceindex.hpp"
#include "vf_enum.hpp"
#if VF_EXEC == 1 || VF_EXEC == 3
#include "algorithms/openmp/tbfopenmpalgorithm.hpp"
#include "algorithms/openmp/tbfopenmpalgorithmtsm.hpp"
#include <omp.h>
#endif

using namespace vf;

using Real = VF_REAL;
constexpr int Dim = VF_DIM;
#if VF_ORDER == 0
using SI = TbfMortonSpaceIndex<Dim, TbfSpacialConfiguration<Real, Dim>, false>;
static const char* OrderName = "morton";
#elif VF_ORDER == 1
using SI = TbfMortonSpaceIndex<Dim, TbfSpacialConfiguration<Real, Dim>, true>;
static const char* OrderName = "morton-periodic";
#else
using SI = TbfHilbertSpaceIndex<Dim, TbfSpacialConfiguration<Real, Dim>, false>;
static const char* OrderName = "hilbert";
#endif
#ifdef VF_DATA_OTHER
using DataT = std::conditional<std::is_same<Real,float>::value, double, float>::type;
constexpr int NbExtra = 2;
#else
using DataT = Real;
constexpr int NbExtra = 0;
#endif
using FX = Fixture<Real, SI, 8, NbExtra, DataT>;
constexpr bool TSM = (VF_EXEC == 2 || VF_EXEC == 3);
#if VF_EXEC == 0
using Algo = TbfAlgorithm<Real, FX::Kernel, SI>;
static const char* ExecName = "sequential";
#elif VF_EXEC == 1
using Algo = TbfOpenmpAlgorithm<Real, FX::Kernel, SI>;
static const char* ExecName = "openmp";
#elif VF_EXEC == 2
using Algo = TbfAlgorithmTsm<Real, FX::Kernel, SI>;
static const char* ExecName = "sequential-tsm";
#else
using Algo = TbfOpenmpAlgorithmTsm<Real, FX::Kernel, SI>;
static const char* ExecName = "openmp-tsm";
#endif

int main(int argc, char** argv){
    const Args args = Args::parse(argc, argv);
#if VF_EXEC == 1 || VF_EXEC == 3
    omp_set_num_threads(3);
#endif
    const std::string cfg = std::string("dim=") + std::to_string(Dim) + " real=" + (sizeof(Real) == 4 ? "float" : "double") + " data=" + (sizeof(DataT) == 4 ? "float" : "double")
        + " order=" + OrderName + " exec=" + ExecName;
    return supervise(args, "C19", [&](Report& rep, Progress& pg){
        rep.spaces.push_back(cfg + ": heights 1..4 x 3 leaf sets x {automatic, explicit} block size x {without, with move+rebuild}");
        const bool periodic = SI::IsPeriodic;
        const bool hilbert = (VF_ORDER == 2);
        const long upper = periodic ? TbfDefaultLastLevelPeriodic : TbfDefaultLastLevel;
        for(int height = (periodic ? 2 : 1) ; height <= (Dim >= 3 ? 3 : 4) + (Dim == 3 ? 1 : 0) ; ++height){
            const long nLeaves = 1L << (Dim*(height-1));
            std::vector<std::vector<long>> leafSets = {{0}, {0, nLeaves-1}, {0, nLeaves/2, nLeaves-1, nLeaves/3, (2*nLeaves)/3}};
            for(auto leaves : leafSets){
                std::sort(leaves.begin(), leaves.end()); leaves.erase(std::unique(leaves.begin(), leaves.end()), leaves.end());
                for(const long bs : {-1L, 2L}) for(int withRebuild = 0 ; withRebuild < 2 ; ++withRebuild){
                    Spec spec = makeSpec(Dim, height, leaves, MMixed, boxes()[0], bs, false, upper);
                    if(TSM){ spec.srcParts = spec.parts; for(auto& p : spec.srcParts) for(int d = 0 ; d < Dim ; ++d) p.lat[d] = (4L << (height-1)) - p.lat[d]; }
                    const std::string cs = cfg + " rebuild=" + std::to_string(withRebuild) + " " + spec.str();
                    if(!pg.begin(cs)) continue;
                    Outcome out;
                    FX fx(spec, TSM);
                    fx.cx.checkArgs = !hilbert;
                    if constexpr (!TSM){ fx.checkConstruction(out, true); if(!hilbert) fx.checkStructure(out); }   // (the geometric structure check presupposes C11, a known finding for Hilbert)
                    else { fx.checkConstructionOf(out, fx.treeTsm->treeTarget, fx.input, fx.lat, "target-", true); fx.checkConstructionOf(out, fx.treeTsm->treeSource, fx.inputSrc, fx.latSrc, "source-", false); }
                    if(withRebuild){
                        // move particle 0 of the target side to the centre of the last leaf, then rebuild
                        const Coord c = vref::unmorton(nLeaves-1, Dim, height-1);
                        Coord nl = vref::zeroCoord(); for(int d = 0 ; d < Dim ; ++d) nl[d] = 4*c[d] + 2;
                        fx.lat[0] = nl;
                        auto edit = [&](auto& header, const long int* idxs, auto& data, auto& /*rhs*/){
                            for(long p = 0 ; p < header.nbParticles ; ++p) if(idxs[p] == 0) for(int d = 0 ; d < Dim ; ++d){
                                const Real v = Real(spec.centre[d] - spec.widths[d]/2) + Real(nl[d]) * (Real(spec.widths[d]) / Real(4L << (height-1)));
                                data[d][p] = DataT(v); fx.input[0][d] = DataT(v); fx.dat[0][d] = double(DataT(v));
                            }
                        };
                        if constexpr (!TSM){ fx.tree->applyToAllLeaves(edit); fx.tree->rebuild(); fx.checkConstruction(out, true); if(!hilbert) fx.checkStructure(out); }
                        else { fx.treeTsm->applyToAllLeavesTarget(edit); fx.treeTsm->rebuild(); fx.checkConstructionOf(out, fx.treeTsm->treeTarget, fx.input, fx.lat, "target-", true); }
                    }
                    fx.tag();
                    fx.activate();
                    {
                        auto algo = std::make_unique<Algo>(fx.config, upper);
                        if constexpr (TSM) algo->execute(*fx.treeTsm); else algo->execute(*fx.tree);
                    }
                    const auto res = TSM ? fx.extractTsmTargets() : fx.extract();
                    fx.checkPairsGeneral(out, res, TSM, periodic ? -1 : 0, periodic ? 1 : 0, true, !hilbert);
                    for(const auto& kv : fx.cx.violations) out.add("call:" + kv.first, kv.second);
                    rep.evaluations += 1; if(leaves.size() >= 2) rep.nontrivial += 1;
                    rep.addOutcome(out, cs);
                    if(rep.samples.empty()) rep.sample(cs);
                }
            }
        }
    }, 60, 10);
}
