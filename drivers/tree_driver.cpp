// Bounded-exhaustive enumeration of input shapes x configurations on the real tree + sequential executor.
// Modes: C01 (pair multiplicities), C02 (operator arguments / geometry), C06 (construction), C07 (structure),
//        C08 (grouping independence), C16 (lookup).
#include "spacial/tbfhilbertspaceindex.hpp"
#include "vf_enum.hpp"
#include "kernels/counterkernels/tbfinteractioncounter.hpp"

using namespace vf;

namespace {

struct Space {
    int dim, height;
    int maxSubset;                 // 0 = every non-empty subset of the leaves
    std::vector<int> motifs;
    std::vector<int> boxIds;
    bool allBlockSizes;
    std::vector<long> uppers;
    std::string describe() const {
        std::ostringstream o;
        o << "dim=" << dim << " height=" << height << " patterns=" << (maxSubset ? "subsets<=" + std::to_string(maxSubset) : std::string("all"))
          << " (" << nbPatterns(1L << (dim*(height-1)), maxSubset) << ") motifs=";
        for(size_t i = 0 ; i < motifs.size() ; ++i) o << (i?",":"") << motifName(motifs[i]);
        o << " boxes=";
        for(size_t i = 0 ; i < boxIds.size() ; ++i) o << (i?",":"") << boxes()[boxIds[i]].name;
        o << " blocksizes=" << (allBlockSizes ? "1..n+1" : "alphabet") << " x both grouping modes uppers=";
        for(size_t i = 0 ; i < uppers.size() ; ++i) o << (i?",":"") << uppers[i];
        return o.str();
    }
};

template <int Dim, bool Periodic = false>
using Morton = TbfMortonSpaceIndex<Dim, TbfSpacialConfiguration<double, Dim>, Periodic>;

constexpr int KS = 16;

Outcome filtered(const Outcome& o, const std::vector<std::string>& prefixes){
    Outcome r;
    for(const auto& v : o.violations){
        for(const auto& p : prefixes) if(v.key.compare(0, p.size(), p) == 0){ r.add(v.key, v.detail); break; }
    }
    return r;
}

// content digest independent of the grouping: cells by (level, coordinate), particles by original index
template <class FX>
u64 contentDigest(const FX& fx){
    u64 h = 0;
    fx.tree->applyToAllCells([&](const long level, const auto& header, const auto& m, const auto& l){
        u64 c = hcomb(0x77, u64(level));
        for(int d = 0 ; d < FX::Dim ; ++d) c = hcomb(c, u64(header.boxCoord[d]));
        c = hcomb(c, u64(header.spaceIndex));
        const auto& mm = (*m).get(); const auto& ll = (*l).get();
        for(int s = 0 ; s < FX::K ; ++s){
            c = hcomb(c, mm.m0[s]); c = hcomb(c, mm.m2[s]); c = hcomb(c, ll.l0[s]); c = hcomb(c, ll.l2[s]);
            for(int d = 0 ; d < FX::Dim ; ++d){ c = hcomb(c, mm.m1[s][d]); c = hcomb(c, ll.l1[s][d]); }
        }
        h += c;
    });
    const auto res = fx.extract();
    for(size_t i = 0 ; i < res.size() ; ++i){
        u64 c = hcomb(0x99, u64(i));
        c = hcomb(c, u64(res[i].leafIndex));
        for(int s = 0 ; s < FX::K ; ++s){ c = hcomb(c, res[i].cnt[s]); c = hcomb(c, res[i].phi[s]); }
        h += c;
    }
    return h;
}

template <int Dim, class SI = Morton<Dim>>
void evalCase(const std::string& mode, const Spec& spec, Report& rep, const std::string& keyPrefix = ""){
    using FX = Fixture<double, SI, KS>;
    using Algo = TbfAlgorithm<double, typename FX::Kernel, SI>;
    Outcome out;
    bool nontrivial = false;
    if(mode == "C01"){
        FX fx(spec);
        fx.tag();
        fx.cx.checkArgs = false;
        fx.template run<Algo>();
        fx.checkPairs(out, 1, true, false);
        fx.checkCells(out, false);
        nontrivial = spec.parts.size() >= 2 && (fx.cx.elems[OpM2L] > 0 || fx.tree->getNbParticleGroups() >= 2);
        rep.counters["m2l_elementary"] += fx.cx.elems[OpM2L];
        rep.counters["p2p_calls"] += fx.cx.calls[OpP2P];
    }
    else if(mode == "C02"){
        FX fx(spec);
        fx.tag();
        fx.cx.checkArgs = true;
        fx.template run<Algo>();
        Outcome all;
        fx.collectKernelViolations(all);
        fx.checkPairs(all, 1, false, true);
        fx.checkCells(all, true);
        out = filtered(all, {"call:", "geometry:"});
        nontrivial = fx.cx.calls[OpM2M] + fx.cx.calls[OpM2L] + fx.cx.calls[OpP2P] > 0;
        for(int o = 0 ; o < OpCount ; ++o) rep.counters[std::string("calls_") + opName(o)] += fx.cx.calls[o];
    }
    else if(mode == "C06"){
        FX fx(spec);
        fx.checkConstruction(out, true);
        const u64 before = fx.treeDigest(9);
        fx.tag();
        fx.cx.checkArgs = false;
        fx.template run<Algo>();
        if(fx.treeDigest(9) != before) out.add("execute:modified-symbolic-or-data", "cell headers or particle positions/indices/data changed by execute()");
        fx.checkConstruction(out, false);
        nontrivial = spec.parts.size() >= 2;
    }
    else if(mode == "C18"){
        using CKernel = TbfInteractionCounter<typename FX::Kernel>;
        using CAlgo = TbfAlgorithm<double, CKernel, SI>;
        // plain run
        FX plain(spec); plain.tag(); plain.cx.checkArgs = false; plain.template run<Algo>();
        const u64 plainDigest = plain.treeDigest();
        FX fx(spec); fx.tag(); fx.cx.checkArgs = false;
        fx.activate();
        CAlgo algo(fx.config, spec.upperLevel);
        algo.execute(*fx.tree);
        if(fx.treeDigest() != plainDigest) out.add("counter:results-changed-by-wrapper", "tree contents differ from the unwrapped kernel");
        auto counters = typename CKernel::ReduceType();
        algo.applyToAllKernels([&](const auto& k){ counters = CKernel::ReduceType::Reduce(counters, k.getReduceData()); });
        FX::compareCounts(out, counters, fx.referenceCounts());
        nontrivial = spec.parts.size() >= 2;
        rep.counters["m2l_counted"] += counters.M2L;
    }
    else if(mode == "C07"){
        FX fx(spec);
        fx.checkStructure(out);
        nontrivial = fx.nbGroupsTotal() > spec.height;   // at least one level with two groups
    }
    else if(mode == "C16"){
        FX fx(spec);
        rep.counters["queries"] += fx.checkLookup(out);
        nontrivial = fx.nbGroupsTotal() > spec.height;
    }
    rep.evaluations += 1;
    if(nontrivial) rep.nontrivial += 1;
    if(!out.ok()) rep.addOutcome(out, keyPrefix.empty() ? spec.str() : keyPrefix + " " + spec.str(), keyPrefix);
}

// C08: one input, every grouping; everything must equal the canonical (single group) run
template <int Dim>
void evalGroupings(const int dim, const int height, const std::vector<long>& leaves, const int motif, const Box& box, const long upper,
                   const bool allBlockSizes, Report& rep){
    using SI = Morton<Dim>;
    using FX = Fixture<double, SI, KS>;
    using Algo = TbfAlgorithm<double, typename FX::Kernel, SI>;
    auto runOne = [&](const Spec& s, u64& log, u64& content, std::array<long,OpCount>& elems, const bool rebuildFirst = false){
        FX fx(s);
        if(rebuildFirst) fx.tree->rebuild();      // a rebuilt tree must be grouped like a freshly built one
        fx.tag();
        fx.cx.checkArgs = false;
        fx.template run<Algo>();
        log = fx.cx.logDigest; content = contentDigest(fx); elems = fx.cx.elems;
        return fx.tree->getNbParticleGroups();
    };
    Spec canon = makeSpec(dim, height, leaves, motif, box, 10000000L, false, upper);
    u64 clog, ccontent; std::array<long,OpCount> celems;
    runOne(canon, clog, ccontent, celems);
    std::vector<Spec> configs;
    for(const long bs : blockSizesFor(long(leaves.size()), allBlockSizes)) for(int og = 0 ; og < 2 ; ++og)
        configs.push_back(makeSpec(dim, height, leaves, motif, box, bs, og != 0, upper));
    { Spec a = makeSpec(dim, height, leaves, motif, box, -1, false, upper); configs.push_back(a);                 // automatic
      Spec e = makeSpec(dim, height, leaves, motif, box, -1, true, upper); e.envBlock = 2; configs.push_back(e);   // env override
      Spec e3 = makeSpec(dim, height, leaves, motif, box, -1, false, upper); e3.envBlock = 3; configs.push_back(e3); }
    for(const Spec& s : configs){
        u64 log, content; std::array<long,OpCount> elems;
        const long groups = runOne(s, log, content, elems);
        Outcome out;
        if(log != clog){
            std::string d = "elementary interactions differ from the single-group run:";
            for(int o = 0 ; o < OpCount ; ++o) if(elems[o] != celems[o]) d += std::string(" ") + opName(o) + " " + std::to_string(elems[o]) + " vs " + std::to_string(celems[o]);
            out.add("grouping:interaction-multiset", d);
        }
        if(content != ccontent) out.add("grouping:results-differ", "cell expansions or particle results differ from the single-group run");
        if(leaves.size() >= 2 && s.blockSize >= 1){
            // same configuration on a tree that went through rebuild() (nothing moved)
            u64 log2, content2; std::array<long,OpCount> elems2;
            runOne(s, log2, content2, elems2, true);
            if(log2 != clog) out.add("grouping:interaction-multiset-after-rebuild", "elementary interactions of the rebuilt tree differ from the single-group run");
            if(content2 != ccontent) out.add("grouping:results-differ-after-rebuild", "results of the rebuilt tree differ from the single-group run");
            rep.evaluations += 1;
        }
        if(s.envBlock > 0){
            FX fx(s);
            if(fx.tree->getNbElementsPerGroup() != s.envBlock) out.add("grouping:env-override-ignored", "TBFMM_BLOCK_SIZE=" + std::to_string(s.envBlock) + " gave " + std::to_string(fx.tree->getNbElementsPerGroup()));
        }
        rep.evaluations += 1;
        if(groups >= 2 && leaves.size() >= 2) rep.nontrivial += 1;
        if(!out.ok()) rep.addOutcome(out, s.str());
    }
    unsetenv("TBFMM_BLOCK_SIZE");
}

template <int Dim>
void runSpace(const std::string& mode, const Space& sp, const Args& args, Report& rep, Progress& pg){
    const long nLeaves = 1L << (sp.dim*(sp.height-1));
    rep.spaces.push_back(sp.describe());
    forEachPattern(nLeaves, sp.maxSubset, args.slice, args.nbSlices, [&](const std::vector<long>& leaves){
        if(rep.timeUp()){ rep.cut(); return; }
        pg.publish(rep);
        for(const int motif : sp.motifs) for(const int boxId : sp.boxIds) for(const long upper : sp.uppers){
            const Box& box = boxes()[boxId];
            if(mode == "C08"){
                if(!pg.begin("groupings of: " + makeSpec(sp.dim, sp.height, leaves, motif, box, 10000000L, false, upper).str())) continue;
                evalGroupings<Dim>(sp.dim, sp.height, leaves, motif, box, upper, sp.allBlockSizes, rep);
                if(rep.samples.size() < 6 && (rep.samples.empty() || leaves.size() >= 3)) rep.sample("every grouping of: " + makeSpec(sp.dim, sp.height, leaves, motif, box, 10000000L, false, upper).str());
                continue;
            }
            for(const long bs : blockSizesFor(long(leaves.size()), sp.allBlockSizes)) for(int og = 0 ; og < 2 ; ++og){
                const Spec spec = makeSpec(sp.dim, sp.height, leaves, motif, box, bs, og != 0, upper);
                if(!pg.begin(spec.str())) continue;
                evalCase<Dim>(mode, spec, rep);
                if(rep.evaluations % 50021 == 1) rep.sample(spec.str());
            }
        }
    });
}

// C06 with a data type different from the coordinate type, extra data values, float coordinates
template <int Dim, class Real, class DataT, int NbExtra>
void evalC06Typed(const Spec& spec, Report& rep, const std::string& tag){
    using SI = TbfMortonSpaceIndex<Dim, TbfSpacialConfiguration<Real, Dim>, false>;
    using FX = Fixture<Real, SI, KS, NbExtra, DataT>;
    using Algo = TbfAlgorithm<Real, typename FX::Kernel, SI>;
    Outcome out;
    FX fx(spec);
    fx.checkConstruction(out, true);
    const u64 before = fx.treeDigest(9);
    fx.tag();
    fx.cx.checkArgs = true;
    fx.template run<Algo>();
    if(fx.treeDigest(9) != before) out.add("execute:modified-symbolic-or-data", "cell headers or particle positions/indices/data changed by execute()");
    fx.checkConstruction(out, false);
    for(const auto& kv : fx.cx.violations) if(kv.first.find("particle-data-bits") != std::string::npos) out.add("call:" + kv.first, kv.second);
    rep.evaluations += 1; if(spec.parts.size() >= 2) rep.nontrivial += 1;
    if(!out.ok()) rep.addOutcome(out, tag + " " + spec.str(), "typed:");
}

template <int Dim>
void runTyped(const Space& sp, const Args& args, Report& rep, Progress& pg){
    const long nLeaves = 1L << (sp.dim*(sp.height-1));
    rep.spaces.push_back("typed (coordinate,data,extra values) in {(float,float,0),(float,double,2),(double,float,3),(double,double,5)}: " + sp.describe());
    forEachPattern(nLeaves, sp.maxSubset, args.slice, args.nbSlices, [&](const std::vector<long>& leaves){
        if(rep.timeUp()){ rep.cut(); return; }
        pg.publish(rep);
        for(const int motif : sp.motifs) for(const int boxId : sp.boxIds)
            for(const long bs : blockSizesFor(long(leaves.size()), sp.allBlockSizes)) for(int og = 0 ; og < 2 ; ++og){
                const Spec spec = makeSpec(sp.dim, sp.height, leaves, motif, boxes()[boxId], bs, og != 0, 2);
                if(!pg.begin("typed: " + spec.str())) continue;
                evalC06Typed<Dim, float, float, 0>(spec, rep, "real=float data=float extra=0");
                evalC06Typed<Dim, float, double, 2>(spec, rep, "real=float data=double extra=2");
                evalC06Typed<Dim, double, float, 3>(spec, rep, "real=double data=float extra=3");
                evalC06Typed<Dim, double, double, 5>(spec, rep, "real=double data=double extra=5");
            }
    });
}

// the Hilbert ordering (3-D only): C01 count channel, C02 arguments/geometry, C06 construction
void runHilbert(const std::string& mode, const Space& sp, const Args& args, Report& rep, Progress& pg){
    using HI = TbfHilbertSpaceIndex<3, TbfSpacialConfiguration<double,3>, false>;
    const long nLeaves = 1L << (3*(sp.height-1));
    rep.spaces.push_back("hilbert " + sp.describe());
    forEachPattern(nLeaves, sp.maxSubset, args.slice, args.nbSlices, [&](const std::vector<long>& leaves){
        if(rep.timeUp()){ rep.cut(); return; }
        pg.publish(rep);
        for(const int motif : sp.motifs) for(const int boxId : sp.boxIds) for(const long upper : sp.uppers)
            for(const long bs : blockSizesFor(long(leaves.size()), sp.allBlockSizes)) for(int og = 0 ; og < 2 ; ++og){
                const Spec spec = makeSpec(3, sp.height, leaves, motif, boxes()[boxId], bs, og != 0, upper);
                if(!pg.begin("hilbert: " + spec.str())) continue;
                evalCase<3, HI>(mode, spec, rep, "hilbert:");
            }
    });
}

void runSpaceDyn(const std::string& mode, const Space& sp, const Args& args, Report& rep, Progress& pg){
    switch(sp.dim){
    case 1: runSpace<1>(mode, sp, args, rep, pg); break;
    case 2: runSpace<2>(mode, sp, args, rep, pg); break;
    case 3: runSpace<3>(mode, sp, args, rep, pg); break;
    case 4: runSpace<4>(mode, sp, args, rep, pg); break;
    }
}

std::vector<Space> spacesFor(const std::string& mode, const std::string& tier){
    const bool thorough = (tier == "thorough");
    const std::vector<int> mAll = {MCentre, MMixed, MCorner, MTwo, MTwoSame, MUpperFace, MVaried};
    const std::vector<int> mFew = {MMixed, MCorner};
    const std::vector<int> mOne = {MMixed};
    const std::vector<int> mC06 = {MCentre, MMixed, MCorner, MTwo, MTwoSame, MUpperFace, MUlpInside, MUlpBelow};
    const std::vector<int> bUnit = {0};
    const std::vector<int> bAll = {0,1,2,3,4,5};
    const std::vector<int> bDyadic = {0,2,3,5};
    std::vector<Space> s;
    const bool structural = (mode == "C06" || mode == "C07" || mode == "C16");
    const std::vector<int>& mFull = (mode == "C06" ? mC06 : mAll);
    const std::vector<int>& bGeom = (mode == "C02" ? bDyadic : bAll);
    const std::vector<long> up2 = {2};
    const std::vector<long> ups = {0,1,2};
    const bool c08 = (mode == "C08");
    if(mode == "C18"){
        const std::vector<int> mV = {MVaried};
        const std::vector<int> mAllV = {MCentre, MMixed, MCorner, MTwo, MTwoSame, MUpperFace, MVaried};
        s.push_back({1, 4, 0, mAllV, bUnit, true, ups});
        s.push_back({2, 3, 0, {MMixed, MVaried}, bUnit, true, up2});
        s.push_back({3, 2, 0, {MMixed, MCorner, MVaried}, bUnit, true, ups});
        s.push_back({4, 2, 0, mV, bUnit, true, up2});
        s.push_back({3, 3, 2, {MMixed, MVaried}, bUnit, false, up2});
        s.push_back({3, 4, 2, mV, bUnit, false, up2});
        s.push_back({2, 4, 2, mOne, bUnit, false, up2});
        s.push_back({3, 4, 1, mFew, bUnit, false, ups});
        s.push_back({1, 6, 2, mOne, bUnit, false, up2});
        if(thorough){
            s.push_back({3, 4, 2, mOne, bUnit, false, up2});
            s.push_back({1, 5, 0, mFew, bUnit, true, up2});
            s.push_back({3, 5, 1, mFew, bUnit, false, ups});
            s.push_back({2, 5, 2, mOne, bUnit, false, up2});
        }
        return s;
    }
    // full occupancy-pattern spaces (<= 16 leaves)
    for(int h = 1 ; h <= 5 ; ++h) s.push_back({1, h, 0, (h == 5 && !structural) ? mFew : mFull, bUnit, true, up2});
    for(int h = 2 ; h <= 3 ; ++h) s.push_back({2, h, 0, (c08 && h == 3) ? mFew : mFull, bUnit, true, up2});
    s.push_back({3, 2, 0, mFull, bUnit, true, up2});
    s.push_back({4, 2, 0, c08 ? mOne : mFew, bUnit, true, up2});
    // box alphabet and upper levels on full pattern spaces
    s.push_back({1, 4, 0, mFew, bGeom, true, ups});
    s.push_back({2, 3, 0, mOne, bGeom, true, ups});
    s.push_back({3, 2, 0, mFew, bGeom, true, ups});
    // larger trees: every subset of <= k leaves
    s.push_back({3, 3, c08 ? 2 : 3, mOne, bUnit, false, up2});
    if(!c08 || thorough) s.push_back({3, 4, 2, mOne, bUnit, false, up2});
    s.push_back({2, 4, c08 ? 2 : 3, mOne, bUnit, false, up2});
    s.push_back({2, 5, 2, mOne, bUnit, false, up2});
    s.push_back({1, 6, 3, mOne, bUnit, false, up2});
    s.push_back({1, 7, 2, mOne, bUnit, false, ups});
    s.push_back({4, 3, 2, mOne, bUnit, false, up2});
    s.push_back({3, 4, 1, mFew, bGeom, false, ups});
    if(thorough){
        s.push_back({3, 5, 2, mOne, bUnit, false, up2});          // every relative placement of two leaves of a height-5 octree
        s.push_back({1, 8, 3, mOne, bUnit, false, up2});
        s.push_back({2, 6, 2, mOne, bUnit, false, up2});
        s.push_back({2, 4, 4, mOne, bUnit, false, up2});
        s.push_back({3, 3, 4, mOne, bUnit, false, up2});
        s.push_back({3, 4, 2, mFew, bGeom, false, ups});
        s.push_back({4, 2, 0, mFull, bGeom, true, ups});
        s.push_back({2, 3, 0, mFull, bGeom, true, ups});
        s.push_back({1, 5, 0, mFull, bGeom, true, ups});
    }
    return s;
}

// C06: boxes (centre -2..2, width 0.1..4, steps of 0.1) x heights 1..8: one particle on the upper box face, one on the
// lower one, one in the middle -- the faces are where the position -> grid coordinate conversion can leave the grid
template <int Dim>
void runBoxLattice(const std::string& mode, const Args& args, Report& rep, Progress& pg){
    rep.spaces.push_back("dim=" + std::to_string(Dim) + " box lattice: centre -2..2 step 0.1 x width 0.1..4 step 0.1 x height 1..8, particles on lower face, upper face, centre");
    unsigned long ordinal = 0;
    for(int ic = -20 ; ic <= 20 ; ++ic) for(int iw = 1 ; iw <= 40 ; ++iw) for(int h = 1 ; h <= (Dim == 1 ? 8 : 5) ; ++h){
        if((ordinal++) % args.nbSlices != args.slice) continue;
        if(rep.timeUp()){ rep.cut(); return; }
        Spec s; s.dim = Dim; s.height = h; s.centre.fill(ic/10.0); s.widths.fill(iw/10.0); s.blockSize = 2; s.upperLevel = 2;
        const long cells = 4L << (h-1);
        Particle lo; lo.lat = vref::zeroCoord();
        Particle hi; hi.lat = vref::zeroCoord(); for(int d = 0 ; d < Dim ; ++d) hi.lat[d] = cells;
        Particle mid; mid.lat = vref::zeroCoord(); for(int d = 0 ; d < Dim ; ++d) mid.lat[d] = cells/2;
        Particle mix = hi; mix.lat[0] = 0;
        s.parts = {lo, hi, mid, mix};
        if(!pg.begin(s.str())) continue;
        evalCase<Dim>(mode, s, rep);
    }
}

int replayOne(const std::string& mode, const std::string& text){
    const Spec spec = parseSpec(text);
    Report rep; rep.property = mode;
    if(text.compare(0, 5, "real=") == 0){
        // "real=float data=double extra=2 dim=..." : typed construction case (C06)
        const bool f = text.find("real=float") != std::string::npos, dd = text.find("data=double") != std::string::npos;
        auto go = [&](auto dimTag){
            constexpr int D = decltype(dimTag)::value;
            if(f && !dd) evalC06Typed<D, float, float, 0>(spec, rep, "real=float data=float extra=0");
            else if(f && dd) evalC06Typed<D, float, double, 2>(spec, rep, "real=float data=double extra=2");
            else if(!f && !dd) evalC06Typed<D, double, float, 3>(spec, rep, "real=double data=float extra=3");
            else evalC06Typed<D, double, double, 5>(spec, rep, "real=double data=double extra=5");
        };
        if(spec.dim == 1) go(std::integral_constant<int,1>()); else if(spec.dim == 2) go(std::integral_constant<int,2>()); else go(std::integral_constant<int,3>());
        for(const auto& kv : rep.violations) std::cout << "REPLAY-VIOLATION key=" << kv.first << " detail=" << kv.second.second << "\n";
        return rep.violations.empty() ? 0 : 1;
    }
    if(text.compare(0, 8, "hilbert:") == 0){
        evalCase<3, TbfHilbertSpaceIndex<3, TbfSpacialConfiguration<double,3>, false>>(mode, spec, rep, "hilbert:");
        for(const auto& kv : rep.violations) std::cout << "REPLAY-VIOLATION key=" << kv.first << " detail=" << kv.second.second << "\n";
        return rep.violations.empty() ? 0 : 1;
    }
    if(mode == "C08"){
        std::cerr << "C08 replays are re-run through the enumeration (case: " << text << ")\n";
    }
    switch(spec.dim){
    case 1: evalCase<1>(mode, spec, rep); break;
    case 2: evalCase<2>(mode, spec, rep); break;
    case 3: evalCase<3>(mode, spec, rep); break;
    case 4: evalCase<4>(mode, spec, rep); break;
    }
    for(const auto& kv : rep.violations) std::cout << "REPLAY-VIOLATION key=" << kv.first << " detail=" << kv.second.second << "\n";
    std::cout << "replayed: " << spec.str() << " violations=" << rep.violations.size() << "\n";
    return rep.violations.empty() ? 0 : 1;
}

} // namespace

int main(int argc, char** argv){
    const Args args = Args::parse(argc, argv);
    if(!args.replay.empty()) return replayOne(args.mode, args.replay);
    return supervise(args, args.mode, [&](Report& rep, Progress& pg){
        for(const Space& sp : spacesFor(args.mode, args.tier)){
            runSpaceDyn(args.mode, sp, args, rep, pg);      // (after the deadline every remaining space records itself as cut)
        }
        if(args.mode == "C01" || args.mode == "C02" || args.mode == "C06"){
            const std::vector<int> mH = (args.mode == "C06") ? std::vector<int>{MCentre, MMixed, MCorner, MTwo, MUpperFace} : std::vector<int>{MMixed, MTwo};
            runHilbert(args.mode, {3, 2, 0, mH, {0}, true, {2}}, args, rep, pg);
            runHilbert(args.mode, {3, 3, 2, {MMixed}, {0}, false, {2}}, args, rep, pg);
            runHilbert(args.mode, {3, 4, (args.tier == "thorough" ? 2 : 1), {MMixed}, {0, 1}, false, {2}}, args, rep, pg);
            runHilbert(args.mode, {3, 5, 1, {MMixed}, {0}, false, {2}}, args, rep, pg);
        }
        if(args.mode == "C06"){
            // boxes 0 (unit) and 5 (dyadic 16 wide): representable in float
            runTyped<3>({3, 2, 0, {MMixed, MCorner, MTwo}, {0, 5}, true, {2}}, args, rep, pg);
            runTyped<1>({1, 4, 0, {MMixed, MUpperFace}, {0, 5}, true, {2}}, args, rep, pg);
            runTyped<2>({2, 3, 2, {MMixed}, {0}, false, {2}}, args, rep, pg);
            runTyped<3>({3, 4, 1, {MMixed}, {0}, false, {2}}, args, rep, pg);
        }
        if(args.mode == "C06"){ runBoxLattice<1>(args.mode, args, rep, pg); runBoxLattice<3>(args.mode, args, rep, pg); }
    });
}
