// C14: group buffers are self-describing flat memory.
//  Part A: explicit-state search over histories of TbfMemoryBlock operations (reset with sizes, move-construct,
//          move-assign, write, byte-copy + raw-memory view) against a vector-per-block reference model.
//  Part B: for every group of every enumerated small tree, byte copies of the buffers viewed through the raw-memory
//          constructors return the same values through every accessor, and the sequential executor run on a tree made
//          ONLY of such views over copies produces byte-identical buffers.
#include "vf_enum.hpp"
#include "containers/tbfmemorymultivvector.hpp"

#include <deque>
#include <unordered_set>

using namespace vf;

namespace {

template <int N> struct Elem { unsigned char b[N]; };

// ---- Part A ---------------------------------------------------------------------------------------------------
// kind traits of the block definitions
template <class T> struct KindOf;
template <class D, long A> struct KindOf<TbfMemoryScalar<D,A>> { static constexpr int kind = 0; static constexpr long rows = 1; using Data = D; };
template <class D, long A> struct KindOf<TbfMemoryVector<D,A>> { static constexpr int kind = 1; static constexpr long rows = 1; using Data = D; };
template <class D, long R, long A> struct KindOf<TbfMemoryMultiRVector<D,R,A>> { static constexpr int kind = 2; static constexpr long rows = R; using Data = D; };
template <class D, long R, long A> struct KindOf<TbfMemoryMultiVVector<D,R,A>> { static constexpr int kind = 3; static constexpr long rows = R; using Data = D; };

const long SIZE_ALPHABET[9] = {0, 1, 7, 8, 9, 63, 64, 65, 10000};

inline unsigned char patternByte(int block, long idx, long row, int byte, int epoch){
    return (unsigned char)(mix64(u64(block)*1315423911ULL + u64(idx)*2654435761ULL + u64(row)*40503ULL + u64(byte)*97ULL + u64(epoch)) & 0xff);
}

template <class... Defs>
struct BlockSearch {
    using Block = TbfMemoryBlock<Defs...>;
    static constexpr int NB = sizeof...(Defs);
    using Tuple = std::tuple<Defs...>;

    struct Model {
        bool hasData = false;             // a reset happened (or moved-in)
        std::array<long,NB> sizes{};      // items per block
        int epoch = 0;                    // pattern currently written (0 = zeros after reset)
    };

    // op encoding: 0..17 reset (size pattern), 18 write, 19 move-construct (continue with the new object), 20 move-assign into a
    // previously reset block, 21 view over a byte copy
    static constexpr int NbOps = 22;
    static std::string opName(int op){
        if(op < 9) return "reset(all=" + std::to_string(SIZE_ALPHABET[op]) + ")";
        if(op < 18) return "reset(staggered from " + std::to_string(SIZE_ALPHABET[op-9]) + ")";
        const char* n[] = {"write", "move-construct", "move-assign", "byte-copy-view"};
        return n[op-18];
    }
    static std::array<long,NB> sizesFor(int op){
        std::array<long,NB> s{};
        int b = 0;
        TbfUtils::for_each<Tuple>([&](auto def, auto idx){
            using Def = typename decltype(def)::BlockTypeT;
            long v = (op < 9) ? SIZE_ALPHABET[op] : SIZE_ALPHABET[(op - 9 + int(idx)) % 9];
            if(KindOf<Def>::kind == 0) v = 1;
            s[idx] = v; (void)b;
        });
        return s;
    }

    template <class BlockT>
    static void checkAgainstModel(BlockT& blk, const Model& m, Outcome& out, const char* where, const bool isView){
        const std::string W = where;
        if(!m.hasData){
            if(!blk.isEmpty()) out.add(W + ":not-empty", "block should be empty");
            return;
        }
        if(blk.isEmpty()){ out.add(W + ":empty", "block lost its content"); return; }
        const unsigned char* base = blk.getPtr();
        const long allocated = blk.getAllocatedMemorySizeInByte();
        const long trailer = long(sizeof(long))*2*NB;
        std::vector<std::pair<const unsigned char*, const unsigned char*>> extents(NB, {nullptr, nullptr});
        TbfUtils::for_each<Tuple>([&](auto def, auto idxC){
            using Def = typename decltype(def)::BlockTypeT;
            using Data = typename KindOf<Def>::Data;
            constexpr int idx = int(idxC);
            const long n = m.sizes[idx];
            auto viewer = blk.template getViewerForBlock<idx>();
            auto touch = [&](Data& item, long i, long row){
                const unsigned char* p = reinterpret_cast<const unsigned char*>(&item);
                if(p < base || p + sizeof(Data) > base + allocated - trailer) out.add(W + ":element-outside-buffer", "block " + std::to_string(idx) + " item " + std::to_string(i) + " row " + std::to_string(row));
                if(!extents[idx].first || p < extents[idx].first) extents[idx].first = p;
                if(!extents[idx].second || p + sizeof(Data) > extents[idx].second) extents[idx].second = p + sizeof(Data);
                for(int b = 0 ; b < int(sizeof(Data)) ; ++b){
                    const unsigned char exp = m.epoch ? patternByte(idx, i, row, b, m.epoch) : 0;
                    if(p[b] != exp){ out.add(W + ":wrong-value", "block " + std::to_string(idx) + " item " + std::to_string(i) + " row " + std::to_string(row) + " byte " + std::to_string(b)); break; }
                }
            };
            if constexpr (KindOf<Def>::kind == 0){ touch(viewer.getItem(), 0, 0); }
            else if constexpr (KindOf<Def>::kind == 1){
                if(viewer.getNbItems() != n) out.add(W + ":item-count", "block " + std::to_string(idx));
                for(long i = 0 ; i < n ; ++i) touch(viewer.getItem(i), i, 0);
            }
            else{
                if(viewer.getNbItems() != n) out.add(W + ":item-count", "block " + std::to_string(idx));
                for(long r = 0 ; r < KindOf<Def>::rows ; ++r) for(long i = 0 ; i < n ; ++i) touch(viewer.getItem(i, r), i, r);
            }
        });
        for(int a = 0 ; a < NB ; ++a) for(int b = a+1 ; b < NB ; ++b){
            if(extents[a].first && extents[b].first && extents[a].second > extents[b].first && extents[b].second > extents[a].first)
                out.add(W + ":blocks-overlap", "blocks " + std::to_string(a) + " and " + std::to_string(b));
        }
        (void)isView;
    }

    static void writePattern(Block& blk, const Model& m){
        TbfUtils::for_each<Tuple>([&](auto def, auto idxC){
            using Def = typename decltype(def)::BlockTypeT;
            using Data = typename KindOf<Def>::Data;
            constexpr int idx = int(idxC);
            auto viewer = blk.template getViewerForBlock<idx>();
            auto put = [&](Data& item, long i, long row){ unsigned char* p = reinterpret_cast<unsigned char*>(&item); for(int b = 0 ; b < int(sizeof(Data)) ; ++b) p[b] = patternByte(idx, i, row, b, m.epoch); };
            if constexpr (KindOf<Def>::kind == 0){ put(viewer.getItem(), 0, 0); }
            else if constexpr (KindOf<Def>::kind == 1){ for(long i = 0 ; i < m.sizes[idx] ; ++i) put(viewer.getItem(i), i, 0); }
            else { for(long r = 0 ; r < KindOf<Def>::rows ; ++r) for(long i = 0 ; i < m.sizes[idx] ; ++i) put(viewer.getItem(i, r), i, r); }
        });
    }

    // replays a history on a fresh block, checking the model after every operation; returns the canonical key
    static u64 replay(const std::vector<int>& hist, Outcome& out){
        auto blk = std::make_unique<Block>();
        Model m;
        int epochCounter = 0;
        for(const int op : hist){
            if(op < 18){
                const auto s = sizesFor(op);
                blk->resetBlocksFromSizes(s);
                m.hasData = true; m.sizes = s; m.epoch = 0;
            }
            else if(op == 18){
                if(m.hasData){ m.epoch = ++epochCounter; writePattern(*blk, m); }
            }
            else if(op == 19){
                auto moved = std::make_unique<Block>(std::move(*blk));
                Model empty; Outcome o2; checkAgainstModel(*blk, empty, o2, "moved-from", false);
                for(const auto& v : o2.violations) out.add(v.key, v.detail);
                blk = std::move(moved);
            }
            else if(op == 20){
                auto other = std::make_unique<Block>();
                other->resetBlocksFromSizes(sizesFor(4));     // it owns something that must be released
                *other = std::move(*blk);
                Model empty; Outcome o2; checkAgainstModel(*blk, empty, o2, "moved-from", false);
                for(const auto& v : o2.violations) out.add(v.key, v.detail);
                blk = std::move(other);
            }
            else if(op == 21){
                if(m.hasData){
                    const long n = blk->getAllocatedMemorySizeInByte();
                    std::vector<unsigned char> copy(blk->getPtr(), blk->getPtr() + n);
                    Block view(copy.data(), n);
                    checkAgainstModel(view, m, out, "view", true);
                    // an explicit initHeader on a non-initialised view gives the same
                    Block view2(copy.data(), n, false); view2.initHeader();
                    checkAgainstModel(view2, m, out, "view-init-header", true);
                }
            }
            checkAgainstModel(*blk, m, out, "owner", false);
        }
        u64 k = hcomb(0x14, m.hasData ? 1 : 0);
        for(int b = 0 ; b < NB ; ++b) k = hcomb(k, u64(m.sizes[b]));
        k = hcomb(k, m.epoch ? 1 : 0);
        k = hcomb(k, u64(blk->getAllocatedMemorySizeInByte()));      // buffer reuse after shrinking is part of the state
        return k;
    }

    static void search(const std::string& name, const int depth, Report& rep, Progress& pg){
        std::unordered_set<u64> seen;
        std::deque<std::vector<int>> frontier;
        frontier.push_back({});
        { Outcome o; seen.insert(replay({}, o)); }
        unsigned long states = 1, transitions = 0;
        while(!frontier.empty()){
            const std::vector<int> h = frontier.front(); frontier.pop_front();
            if(int(h.size()) >= depth) continue;
            for(int op = 0 ; op < NbOps ; ++op){
                if(rep.timeUp()){ rep.cutSpace("memory block " + name + " depth " + std::to_string(depth) + ": interrupted after states=" + std::to_string(states) + " transitions=" + std::to_string(transitions)); return; }
                std::vector<int> h2 = h; h2.push_back(op);
                std::string cs = "memory block " + name + " history=";
                for(size_t i = 0 ; i < h2.size() ; ++i) cs += (i ? " ; " : "") + opName(h2[i]);
                if(!pg.begin(cs)) continue;
                Outcome out;
                const u64 k = replay(h2, out);
                transitions += 1; rep.evaluations += 1; rep.traces += 1;
                rep.addOutcome(out, cs, "block:");
                if(seen.insert(k).second){ states += 1; frontier.push_back(h2); }
                if(rep.evaluations % 4001 == 1) rep.sample(cs);
            }
            pg.publish(rep);
        }
        rep.states += states; rep.transitions += transitions; rep.nontrivial += 1;
        rep.spaces.push_back("memory block " + name + " depth " + std::to_string(depth) + ": states=" + std::to_string(states) + " transitions=" + std::to_string(transitions));
    }
};

// ---- Part B ---------------------------------------------------------------------------------------------------
template <int Dim>
struct ViewTreeCheck {
    using SI = TbfMortonSpaceIndex<Dim, TbfSpacialConfiguration<double, Dim>, false>;
    using FX = Fixture<double, SI, 8>;
    using Algo = TbfAlgorithm<double, typename FX::Kernel, SI>;
    using CellGroup = typename FX::Tree::CellGroupClass;
    using LeafGroup = typename FX::Tree::LeafGroupClass;

    // a "tree" made only of raw-memory views over byte copies of the original group buffers
    struct ViewTree {
        const typename FX::Config& config; const SI& sp;
        std::vector<std::vector<std::vector<unsigned char>>> cellBufs;     // per group: 3 buffers (flattened per level below)
        std::vector<std::vector<CellGroup>> cells;
        std::vector<std::vector<unsigned char>> partBufs;
        std::vector<LeafGroup> parts;
        std::vector<std::vector<std::array<std::vector<unsigned char>,3>>> cellStore;
        std::vector<std::array<std::vector<unsigned char>,2>> partStore;
        // arrayForm: use the constructors taking the array returned by getDataPtrsAndSizes() instead of the pointer/size lists
        ViewTree(typename FX::Tree& t, const bool arrayForm = false) : config(t.getSpacialConfiguration()), sp(t.getSpacialSystem()){
            const long h = t.getHeight();
            cellStore.resize(h); cells.resize(h);
            for(long l = 0 ; l < h ; ++l){
                auto& groups = t.getCellGroupsAtLevel(l);
                cellStore[l].resize(groups.size());
                cells[l].reserve(groups.size());
                for(size_t g = 0 ; g < groups.size() ; ++g){
                    const auto ps = groups[g].getDataPtrsAndSizes();
                    for(int b = 0 ; b < 3 ; ++b) cellStore[l][g][b].assign(ps[b].first, ps[b].first + ps[b].second);
                    if(arrayForm){
                        const std::array<std::pair<unsigned char*, size_t>, 3> arr{{{cellStore[l][g][0].data(), cellStore[l][g][0].size()}, {cellStore[l][g][1].data(), cellStore[l][g][1].size()}, {cellStore[l][g][2].data(), cellStore[l][g][2].size()}}};
                        cells[l].emplace_back(arr);
                    }
                    else cells[l].emplace_back(cellStore[l][g][0].data(), cellStore[l][g][0].size(), cellStore[l][g][1].data(), cellStore[l][g][1].size(),
                                          cellStore[l][g][2].data(), cellStore[l][g][2].size());
                }
            }
            auto& pg = t.getParticleGroups();
            partStore.resize(pg.size()); parts.reserve(pg.size());
            for(size_t g = 0 ; g < pg.size() ; ++g){
                const auto ps = pg[g].getDataPtrsAndSizes();
                for(int b = 0 ; b < 2 ; ++b) partStore[g][b].assign(ps[b].first, ps[b].first + ps[b].second);
                if(arrayForm){
                    const std::array<std::pair<unsigned char*, size_t>, 2> arr{{{partStore[g][0].data(), partStore[g][0].size()}, {partStore[g][1].data(), partStore[g][1].size()}}};
                    parts.emplace_back(arr);
                }
                else parts.emplace_back(partStore[g][0].data(), partStore[g][0].size(), partStore[g][1].data(), partStore[g][1].size());
            }
        }
        long getHeight() const { return config.getTreeHeight(); }
        const typename FX::Config& getSpacialConfiguration() const { return config; }
        const SI& getSpacialSystem() const { return sp; }
        std::vector<CellGroup>& getCellGroupsAtLevel(long l){ return cells[l]; }
        std::vector<CellGroup>& getLeafGroups(){ return cells.back(); }
        std::vector<LeafGroup>& getParticleGroups(){ return parts; }
    };

    static void accessorsEqual(typename FX::Tree& t, ViewTree& v, Outcome& out){
        for(long l = 0 ; l < t.getHeight() ; ++l){
            auto& a = t.getCellGroupsAtLevel(l); auto& b = v.cells[l];
            for(size_t g = 0 ; g < a.size() ; ++g){
                if(a[g].getNbCells() != b[g].getNbCells() || a[g].getStartingSpacialIndex() != b[g].getStartingSpacialIndex() || a[g].getEndingSpacialIndex() != b[g].getEndingSpacialIndex())
                    { out.add("view:cell-group-header", "level " + std::to_string(l) + " group " + std::to_string(g)); continue; }
                for(long i = 0 ; i < a[g].getNbCells() ; ++i){
                    if(a[g].getCellSpacialIndex(i) != b[g].getCellSpacialIndex(i) || a[g].getCellBoxCoord(i) != b[g].getCellBoxCoord(i)) out.add("view:cell-symbolic", "level " + std::to_string(l));
                    if(std::memcmp(&a[g].getCellMultipole(i), &b[g].getCellMultipole(i), sizeof(typename FX::Mult)) != 0) out.add("view:cell-multipole", "level " + std::to_string(l));
                    if(std::memcmp(&a[g].getCellLocal(i), &b[g].getCellLocal(i), sizeof(typename FX::Loc)) != 0) out.add("view:cell-local", "level " + std::to_string(l));
                    // accessor stays inside its (copied) buffer
                    const unsigned char* p = reinterpret_cast<const unsigned char*>(&b[g].getCellMultipole(i));
                    if(p < v.cellStore[l][g][1].data() || p + sizeof(typename FX::Mult) > v.cellStore[l][g][1].data() + v.cellStore[l][g][1].size() - 16) out.add("view:accessor-outside-buffer", "multipole");
                    const unsigned char* q = reinterpret_cast<const unsigned char*>(&b[g].getCellLocal(i));
                    if(q < v.cellStore[l][g][2].data() || q + sizeof(typename FX::Loc) > v.cellStore[l][g][2].data() + v.cellStore[l][g][2].size() - 16) out.add("view:accessor-outside-buffer", "local");
                    if(a[g].getElementFromSpacialIndex(a[g].getCellSpacialIndex(i)) != b[g].getElementFromSpacialIndex(a[g].getCellSpacialIndex(i))) out.add("view:cell-lookup", "level " + std::to_string(l));
                }
            }
        }
        auto& pa = t.getParticleGroups(); auto& pb = v.parts;
        for(size_t g = 0 ; g < pa.size() ; ++g){
            if(pa[g].getNbLeaves() != pb[g].getNbLeaves() || pa[g].getNbParticles() != pb[g].getNbParticles() || pa[g].getStartingSpacialIndex() != pb[g].getStartingSpacialIndex() || pa[g].getEndingSpacialIndex() != pb[g].getEndingSpacialIndex())
                { out.add("view:particle-group-header", "group " + std::to_string(g)); continue; }
            for(long i = 0 ; i < pa[g].getNbLeaves() ; ++i){
                if(pa[g].getLeafSpacialIndex(i) != pb[g].getLeafSpacialIndex(i) || pa[g].getNbParticlesInLeaf(i) != pb[g].getNbParticlesInLeaf(i) || pa[g].getLeafBoxCoord(i) != pb[g].getLeafBoxCoord(i)) out.add("view:leaf-symbolic", "group " + std::to_string(g));
                const long n = pa[g].getNbParticlesInLeaf(i);
                const auto da = pa[g].getParticleData(i); const auto db = pb[g].getParticleData(i);
                const auto ra = pa[g].getParticleRhs(i); const auto rb = pb[g].getParticleRhs(i);
                const long* ia = pa[g].getParticleIndexes(i); const long* ib = pb[g].getParticleIndexes(i);
                for(long p = 0 ; p < n ; ++p){
                    if(ia[p] != ib[p]) out.add("view:particle-index", "group " + std::to_string(g));
                    for(size_t d = 0 ; d < da.size() ; ++d) if(std::memcmp(&da[d][p], &db[d][p], sizeof(double)) != 0) out.add("view:particle-data", "group " + std::to_string(g));
                    for(size_t r = 0 ; r < ra.size() ; ++r){
                        if(ra[r][p] != rb[r][p]) out.add("view:particle-rhs", "group " + std::to_string(g));
                        const unsigned char* q = reinterpret_cast<const unsigned char*>(&rb[r][p]);
                        if(q < v.partStore[g][1].data() || q + 8 > v.partStore[g][1].data() + v.partStore[g][1].size() - 16) out.add("view:accessor-outside-buffer", "rhs");
                    }
                }
            }
        }
    }

    static void evalCase(const Spec& spec, Report& rep){
        Outcome out;
        FX fx(spec);
        fx.tag();
        fx.cx.checkArgs = false;
        ViewTree before(*fx.tree);
        accessorsEqual(*fx.tree, before, out);
        {
            Outcome o2; ViewTree beforeArr(*fx.tree, true);
            accessorsEqual(*fx.tree, beforeArr, o2);
            for(const auto& v : o2.violations) out.add(v.key + ":array-form-constructor", v.detail);
        }
        // operators on the copies
        {
            ViewTree vt(*fx.tree, (spec.blockSize % 2) == 0);      // both constructor forms are exercised under the operators
            fx.activate();
            Algo algoV(fx.config, spec.upperLevel);
            algoV.execute(vt);
            Algo algoO(fx.config, spec.upperLevel);
            algoO.execute(*fx.tree);
            accessorsEqual(*fx.tree, vt, out);
            // byte-identical buffers
            for(long l = 0 ; l < fx.tree->getHeight() ; ++l){
                auto& groups = fx.tree->getCellGroupsAtLevel(l);
                for(size_t g = 0 ; g < groups.size() ; ++g){
                    const auto ps = groups[g].getDataPtrsAndSizes();
                    for(int b = 0 ; b < 3 ; ++b) if(ps[b].second != vt.cellStore[l][g][b].size() || std::memcmp(ps[b].first, vt.cellStore[l][g][b].data(), ps[b].second) != 0) out.add("view:operators-on-copies-differ", "cell buffer " + std::to_string(b) + " level " + std::to_string(l));
                }
            }
            auto& pgp = fx.tree->getParticleGroups();
            for(size_t g = 0 ; g < pgp.size() ; ++g){
                const auto ps = pgp[g].getDataPtrsAndSizes();
                for(int b = 0 ; b < 2 ; ++b) if(ps[b].second != vt.partStore[g][b].size() || std::memcmp(ps[b].first, vt.partStore[g][b].data(), ps[b].second) != 0) out.add("view:operators-on-copies-differ", "particle buffer " + std::to_string(b));
            }
        }
        rep.evaluations += 1; rep.traces += 1; rep.transitions += 2;
        if(fx.nbGroupsTotal() > spec.height) rep.nontrivial += 1;
        rep.addOutcome(out, spec.str(), "tree-");
    }
};

template <int Dim>
void treeSpace(const int height, const int maxSubset, const std::vector<int>& motifs, const Args& args, Report& rep, Progress& pg){
    const long nLeaves = 1L << (Dim*(height-1));
    rep.spaces.push_back("views over byte copies: dim=" + std::to_string(Dim) + " height=" + std::to_string(height) + " patterns=" + (maxSubset ? "subsets<=" + std::to_string(maxSubset) : std::string("all")) + " x block sizes x grouping modes");
    forEachPattern(nLeaves, maxSubset, args.slice, args.nbSlices, [&](const std::vector<long>& leaves){
        if(rep.timeUp()){ rep.cut(); return; }
        for(const int motif : motifs) for(const long bs : blockSizesFor(long(leaves.size()), maxSubset == 0)) for(int og = 0 ; og < 2 ; ++og){
            const Spec s = makeSpec(Dim, height, leaves, motif, boxes()[0], bs, og != 0, 2);
            if(!pg.begin(s.str())) continue;
            ViewTreeCheck<Dim>::evalCase(s, rep);
        }
        pg.publish(rep);
    });
}

struct H8 { long a; };
struct H24 { long a; double b; long c; };

} // namespace

int main(int argc, char** argv){
    const Args args = Args::parse(argc, argv);
    const bool thorough = (args.tier == "thorough");
    return supervise(args, "C14", [&](Report& rep, Progress& pg){
        const int depth = thorough ? 5 : 3;
        unsigned long ord = 0;
        auto mine = [&](){ return (ord++) % args.nbSlices == args.slice; };
        if(mine()) BlockSearch<TbfMemoryScalar<H8>>::search("<scalar(8)>", depth, rep, pg);
        if(mine()) BlockSearch<TbfMemoryVector<Elem<1>>>::search("<vector(1)>", depth, rep, pg);
        if(mine()) BlockSearch<TbfMemoryScalar<H24>, TbfMemoryVector<Elem<24>>>::search("<scalar(24), vector(24)>", depth, rep, pg);
        if(mine()) BlockSearch<TbfMemoryScalar<H8>, TbfMemoryVector<Elem<2>>, TbfMemoryVector<long>, TbfMemoryMultiRVector<double,3>>::search("<scalar(8), vector(2), vector(long), multi-row(double x3)>", depth, rep, pg);
        if(mine()) BlockSearch<TbfMemoryVector<Elem<64>>>::search("<vector(64)>", depth, rep, pg);
        if(mine()) BlockSearch<TbfMemoryVector<Elem<4096>>>::search("<vector(4096)>", depth, rep, pg);
        if(mine()) BlockSearch<TbfMemoryMultiRVector<float,4>, TbfMemoryMultiVVector<double,3>>::search("<multi-row(float x4), multi-col(double x3)>", depth, rep, pg);
        if(mine()) BlockSearch<TbfMemoryScalar<H8>, TbfMemoryVector<Elem<24>>, TbfMemoryMultiRVector<Elem<64>,2>, TbfMemoryVector<Elem<1>>>::search("<scalar(8), vector(24), multi-row(64 x2), vector(1)>", depth, rep, pg);
        if(mine()) BlockSearch<TbfMemoryMultiRVector<Elem<128>,2>>::search("<multi-row(128 x2)>", depth, rep, pg);
        if(mine()) BlockSearch<TbfMemoryMultiRVector<Elem<1>,5>, TbfMemoryVector<Elem<8>>>::search("<multi-row(1 x5), vector(8)>", depth, rep, pg);
        if(mine()) BlockSearch<TbfMemoryMultiVVector<Elem<16>,3>, TbfMemoryScalar<H8>>::search("<multi-col(16 x3), scalar(8)>", depth, rep, pg);
        const std::vector<int> mFew = {MMixed, MTwo};
        treeSpace<1>(4, 0, mFew, args, rep, pg);
        treeSpace<2>(3, 0, {MMixed}, args, rep, pg);
        treeSpace<3>(2, 0, mFew, args, rep, pg);
        treeSpace<3>(3, 2, {MMixed}, args, rep, pg);
        treeSpace<3>(4, 1, {MMixed}, args, rep, pg);
        if(thorough){
            treeSpace<1>(5, 0, {MMixed}, args, rep, pg);
            treeSpace<3>(4, 2, {MMixed}, args, rep, pg);
            treeSpace<4>(2, 0, {MMixed}, args, rep, pg);
            treeSpace<2>(4, 3, {MMixed}, args, rep, pg);
        }
    }, 60, 40);
}
