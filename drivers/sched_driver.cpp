// E3 driver: explores the schedules of the task graph a task-based executor REALLY submits, on the real code, under the
// mock runtime (harness/sched).  Executors: OpenMP (GOMP ABI mock); built twice: fast build (state space, confluence,
// equality with the sequential executor) and trace build (-fsanitize=thread with our own hooks, -fno-inline: byte-exact
// task footprints for the race oracle, frame-exact lifetime oracle).
#include "vf_enum.hpp"
#include "sched/vf_explore.hpp"

#if defined(VF_EXEC_OMP) || defined(VF_EXEC_OMP_TSM)
#include "algorithms/openmp/tbfopenmpalgorithm.hpp"
#include "algorithms/openmp/tbfopenmpalgorithmtsm.hpp"
#endif
#if defined(VF_EXEC_SPECX) || defined(VF_EXEC_SPECX_TSM)
#include "algorithms/smspecx/tbfsmspecxalgorithm.hpp"
#include "algorithms/smspecx/tbfsmspecxalgorithmtsm.hpp"
#endif
#if defined(VF_EXEC_STARPU) || defined(VF_EXEC_STARPU_TSM)
#include "algorithms/smstarpu/tbfsmstarpualgorithm.hpp"
#include "algorithms/smstarpu/tbfsmstarpualgorithmtsm.hpp"
#endif

#ifdef VF_COUNTER
#include "kernels/counterkernels/tbfinteractioncounter.hpp"
#endif

using namespace vf;

namespace {

constexpr int KE = 8;
using SI3 = TbfMortonSpaceIndex<3, TbfSpacialConfiguration<double, 3>, false>;
using FX3 = Fixture<double, SI3, KE>;
using SeqAlgo = TbfAlgorithm<double, FX3::Kernel, SI3>;
#ifdef VF_COUNTER
using KernelUsed = TbfInteractionCounter<FX3::Kernel>;
#else
using KernelUsed = FX3::Kernel;
#endif
#if defined(VF_EXEC_OMP_TSM)
constexpr bool TSM = true;
using SeqAlgoT = TbfAlgorithmTsm<double, FX3::Kernel, SI3>;
using ParAlgo = TbfOpenmpAlgorithmTsm<double, KernelUsed, SI3>;
static const char* ExecName = "TbfOpenmpAlgorithmTsm";
#elif defined(VF_EXEC_OMP)
constexpr bool TSM = false;
using SeqAlgoT = SeqAlgo;
using ParAlgo = TbfOpenmpAlgorithm<double, KernelUsed, SI3>;
static const char* ExecName = "TbfOpenmpAlgorithm";
#elif defined(VF_EXEC_SPECX)
constexpr bool TSM = false;
using SeqAlgoT = SeqAlgo;
using ParAlgo = TbfSmSpecxAlgorithm<double, KernelUsed, SI3>;
static const char* ExecName = "TbfSmSpecxAlgorithm(mock runtime)";
#elif defined(VF_EXEC_SPECX_TSM)
constexpr bool TSM = true;
using SeqAlgoT = TbfAlgorithmTsm<double, FX3::Kernel, SI3>;
using ParAlgo = TbfSmSpecxAlgorithmTsm<double, KernelUsed, SI3>;
static const char* ExecName = "TbfSmSpecxAlgorithmTsm(mock runtime)";
#elif defined(VF_EXEC_STARPU)
constexpr bool TSM = false;
using SeqAlgoT = SeqAlgo;
using ParAlgo = TbfSmStarpuAlgorithm<double, KernelUsed, SI3>;
static const char* ExecName = "TbfSmStarpuAlgorithm(mock runtime)";
#elif defined(VF_EXEC_STARPU_TSM)
constexpr bool TSM = true;
using SeqAlgoT = TbfAlgorithmTsm<double, FX3::Kernel, SI3>;
using ParAlgo = TbfSmStarpuAlgorithmTsm<double, KernelUsed, SI3>;
static const char* ExecName = "TbfSmStarpuAlgorithmTsm(mock runtime)";
#endif

template <class FX> u64 fullDigest(const FX& fx){ if constexpr (TSM) return hcomb(fx.tsmDigest(true), fx.tsmDigest(false)); else return fx.treeDigest(); }
template <class FX, class Algo> void execOn(FX& fx, Algo& algo){ if constexpr (TSM) algo.execute(*fx.treeTsm); else algo.execute(*fx.tree); }
template <class FX> std::vector<std::pair<std::uintptr_t,std::uintptr_t>> bufferRanges(FX& fx){
    std::vector<std::pair<std::uintptr_t,std::uintptr_t>> ranges;
    auto add = [&](const unsigned char* p, size_t n){ ranges.push_back({reinterpret_cast<std::uintptr_t>(p), reinterpret_cast<std::uintptr_t>(p) + n}); };
    auto addTree = [&](auto& t){
        for(long l = 0 ; l < t.getHeight() ; ++l) for(auto& g : t.getCellGroupsAtLevel(l)){ add(g.getDataPtr(), size_t(g.getDataSize())); add(g.getMultipolePtr(), size_t(g.getMultipoleSize())); add(g.getLocalPtr(), size_t(g.getLocalSize())); }
        for(auto& g : t.getParticleGroups()){ add(g.getDataPtr(), size_t(g.getDataSize())); add(g.getRhsPtr(), size_t(g.getRhsSize())); }
    };
    if constexpr (TSM){ addTree(fx.treeTsm->treeSource); addTree(fx.treeTsm->treeTarget); } else addTree(*fx.tree);
    return ranges;
}

struct Job {
    std::string name;
    Spec spec;
    int nbWorkers;
    int mode;          // 0 = full state space, 1 = named schedules only, 2 = deviation bound
    int bound;
};

Spec leavesSpec(const int height, const std::vector<long>& leaves, const long bs, const bool ogpp, const long upper = 2, const int motif = MMixed){
    return makeSpec(3, height, leaves, motif, boxes()[0], bs, ogpp, upper);
}

std::vector<Job> jobsForSingle(const std::string& tier, const bool traceBuild);
std::vector<Job> jobsFor(const std::string& tier, const bool traceBuild){
    std::vector<Job> j = jobsForSingle(tier, traceBuild);
#if defined(VF_EXEC_OMP)
    const bool commutative = false;
#else
    const bool commutative = true;     // commutative accesses are unordered: the state spaces are much larger than with OpenMP's inout
#endif
    if(commutative && traceBuild && tier != "thorough"){
        for(auto& job : j) if(job.mode == 0 && job.name != "h3-4leaves-bs2" && job.name != "h3-4leaves-bs2-ogpp"){ job.mode = 2; job.bound = 1; }
    }
    if(commutative && !TSM){
        for(auto& job : j){
            if(tier != "thorough" && job.mode == 0 && (job.name == "h4-4leaves-bs2-upper1" || job.name == "h3-6leaves-bs2" || job.name == "h5-4leaves-bs2" || job.name == "h5-6leaves-bs3")){ job.mode = 2; job.bound = 2; }
            if(tier != "thorough" && job.mode == 2 && job.name == "h4-11leaves-bs4-varied") job.bound = 1;
        }
    }
    if(getenv("VF_SCHED_LIGHT")){
        // sanitizer builds (C15): exhaustive only on the smallest graphs, deviation bound 1 on the others, W=2 for the mid-size trees
        std::vector<Job> light;
        for(auto& job : j){
            if(job.mode == 1 && job.nbWorkers != 2) continue;
            if(job.mode != 1 && job.name != "h3-4leaves-bs2" && job.name != "h3-4leaves-bs2-ogpp" && job.name != "h4-4leaves-bs2"){ job.mode = 2; job.bound = 1; }
            light.push_back(job);
        }
        j = light;
    }
    if(TSM){
        // target/source: the listed leaves are the targets; sources sit on a shifted/overlapping set of leaves with another motif
        for(auto& job : j){
            const long nLeaves = 1L << (3*(job.spec.height-1));
            std::vector<Particle> src;
            size_t i = 0;
            for(const auto& p : job.spec.parts){
                Particle q = p;
                if(i % 3 == 0){ /* identical position on both sides */ }
                else if(i % 3 == 1){ for(int d = 0 ; d < 3 ; ++d) q.lat[d] = (4L << (job.spec.height-1)) - p.lat[d]; }     // mirrored
                else { q.lat[0] = (p.lat[0] + 4) % (4L << (job.spec.height-1)); }                                             // neighbouring leaf
                src.push_back(q); ++i;
            }
            (void)nLeaves;
            job.spec.srcParts = src;
            // the target/source graphs are larger: in the quick tier the bigger ones are explored with a deviation bound
            if(tier != "thorough" && job.mode == 0 && (job.name == "h4-4leaves-bs2-upper1" || job.name == "h3-6leaves-bs2" || job.name == "h5-4leaves-bs2" || job.name == "h5-6leaves-bs3")){ job.mode = 2; job.bound = 2; }
            if(tier != "thorough" && job.mode == 2 && job.name == "h4-11leaves-bs4-varied") job.bound = 1;
        }
    }
    return j;
}
std::vector<Job> jobsForSingle(const std::string& tier, const bool traceBuild){
    std::vector<Job> j;
    const bool thorough = (tier == "thorough");
    // small driver graphs: siblings cut by group boundaries, 2-3 groups per level
    const Spec t1 = leavesSpec(3, {0, 7, 56, 63}, 2, false);
    const Spec t2 = leavesSpec(4, {0, 7, 448, 511}, 2, false);
    const Spec t3 = leavesSpec(3, {0, 7, 8, 27, 56, 63}, 2, false);
    const Spec t4 = leavesSpec(5, {0, 63, 3584, 4095}, 2, false);
    const Spec t5 = leavesSpec(5, {0, 7, 64, 511, 3584, 4095}, 3, false);
    const Spec t6 = leavesSpec(4, {0, 7, 8, 63, 448, 511}, 2, false);
    const Spec t7 = leavesSpec(5, {0, 7, 64, 511, 3584, 4095}, 2, false);
    const Spec t1g = leavesSpec(3, {0, 7, 56, 63}, 2, true);
    const Spec t2g = leavesSpec(4, {0, 7, 448, 511}, 1, true);
    const Spec t2u = leavesSpec(4, {0, 7, 448, 511}, 2, false, 1);
    const Spec t8 = leavesSpec(4, {0, 1, 2, 3, 4, 5, 6, 7, 8, 9, 10}, 4, false, 2, MVaried);
    if(!traceBuild){
        j.push_back({"h3-4leaves-bs2", t1, 2, 0, 0});
        j.push_back({"h4-4leaves-bs2", t2, 2, 0, 0});
        j.push_back({"h3-4leaves-bs2-ogpp", t1g, 3, 0, 0});
        j.push_back({"h4-4leaves-bs2-ogpp", leavesSpec(4, {0, 7, 448, 511}, 2, true), 2, 0, 0});
        j.push_back({"h4-4leaves-bs2-upper1", t2u, 2, 0, 0});
        j.push_back({"h3-6leaves-bs2", t3, 2, 0, 0});
        j.push_back({"h5-4leaves-bs2", t4, 2, 0, 0});
        j.push_back({"h5-6leaves-bs3", t5, 3, 0, 0});
        j.push_back({"h4-11leaves-bs4-varied", t8, 2, 2, 2});
        if(thorough){
            j.push_back({"h4-4leaves-bs1-ogpp", t2g, 2, 0, 0});
            j.push_back({"h4-6leaves-bs2", t6, 2, 0, 0});
            j.push_back({"h5-6leaves-bs2", t7, 2, 0, 0});
        }
    }
    else{
        j.push_back({"h3-4leaves-bs2", t1, 2, 0, 0});
        j.push_back({"h4-4leaves-bs2", t2, 2, 0, 0});
        j.push_back({"h3-4leaves-bs2-ogpp", t1g, 3, 0, 0});
        j.push_back({"h3-6leaves-bs2", t3, 2, 2, 1});
        j.push_back({"h5-4leaves-bs2", t4, 2, 2, 1});
        j.push_back({"h5-6leaves-bs3", t5, 3, 2, 1});
        j.push_back({"h4-11leaves-bs4-varied", t8, 2, 2, 1});
        if(thorough){
            j.push_back({"h3-6leaves-bs2", t3, 2, 0, 0});
            j.push_back({"h5-4leaves-bs2", t4, 2, 0, 0});
            j.push_back({"h4-6leaves-bs2", t6, 2, 2, 2});
        }
    }
    // mid-size trees: named schedules (+ deviation bound in thorough)
    auto everyNth = [](long total, long step, long offset){ std::vector<long> v; for(long i = offset ; i < total ; i += step) v.push_back(i); return v; };
    std::vector<std::pair<std::string, Spec>> mids = {
        {"h3-all64-bs7", leavesSpec(3, everyNth(64, 1, 0), 7, false)},
        {"h3-all64-bs5-ogpp", leavesSpec(3, everyNth(64, 1, 0), 5, true)},
        {"h4-every5th-bs9", leavesSpec(4, everyNth(512, 5, 0), 9, false)},
        {"h4-every7th-bs4-ogpp", leavesSpec(4, everyNth(512, 7, 3), 4, true)},
        {"h5-every97th-bs3", leavesSpec(5, everyNth(4096, 97, 11), 3, false)},
        {"h5-every61th-bs8-two", leavesSpec(5, everyNth(4096, 61, 0), 8, false, 2, MTwo)},
        {"h4-every3rd-bs16-upper0", leavesSpec(4, everyNth(512, 3, 1), 16, false, 0)},
        {"h6-every1999th-bs2", leavesSpec(6, everyNth(32768, 1999, 5), 2, false)},
    };
    for(const auto& m : mids){
        for(int w : {1, 2, 3, 16}){
            if(traceBuild && w != 2) continue;
            j.push_back({m.first + "-W" + std::to_string(w), m.second, w, 1, 0});
        }
    }
    return j;
}

struct JobRunner {
    Job job;
    u64 seqDigest = 0;
    bool trace = false;
    Report* rep = nullptr;
    std::string jobStr;

    void computeSequential(){
        FX3 fx(job.spec, TSM);
        fx.tag();
        fx.cx.checkArgs = false;
        fx.activate();
        SeqAlgoT algo(fx.config, job.spec.upperLevel);
        execOn(fx, algo);
        seqDigest = fullDigest(fx);
    }

    vfs::RunTrace runOnce(const std::vector<int>& prefix, const vfs::Policy policy, Outcome& out, const std::vector<int>& workerOf = {}){
        FX3 fx(job.spec, TSM);
        fx.tag();
        fx.cx.checkArgs = true;
        vfs::Config cfg;
        cfg.prefix = prefix; cfg.policy = policy; cfg.nbWorkers = job.nbWorkers; cfg.workerOf = workerOf;
        cfg.digests = (job.mode != 1);
        FX3* fxp = &fx;
        cfg.stateDigest = [fxp](){ return fullDigest(*fxp); };
        ParAlgo* algoPtr = nullptr;
        std::vector<std::string> workerViolations;
        cfg.afterTask = [&](vfs::TaskRecord& t){
            t.kernelUsed = fxp->cx.lastKernelThis;
            t.obsDigest = fxp->cx.taskDigest;
            fxp->cx.taskDigest = 0;
            if(algoPtr && t.worker >= int(algoPtr->kernels.size()))
                workerViolations.push_back("OUT-OF-RANGE task " + std::to_string(t.id) + " (" + t.label + ") ran on worker " + std::to_string(t.worker) + " but the executor holds only " + std::to_string(algoPtr->kernels.size()) + " kernel object(s)");
            else if(algoPtr && t.kernelUsed && t.kernelUsed != static_cast<const void*>(algoPtr->kernels.data() + t.worker))
                workerViolations.push_back("task " + std::to_string(t.id) + " (" + t.label + ") on worker " + std::to_string(t.worker) + " used another worker's kernel object");
            fxp->cx.lastKernelThis = nullptr;
        };
        if(trace) vfs::setTreeRanges(bufferRanges(fx));
        vfs::beginRun(cfg);
        {
            auto algo = std::make_unique<ParAlgo>(fx.config, job.spec.upperLevel);
            algoPtr = algo.get();
            fx.activate();
            if(trace) vfs::traceEnable(true);
            execOn(fx, *algo);
            if(trace) vfs::traceEnable(false);
#ifdef VF_COUNTER
            {
                std::vector<typename KernelUsed::ReduceType> per;
                algo->applyToAllKernels([&](const auto& k){ per.push_back(k.getReduceData()); });
                auto fwd = typename KernelUsed::ReduceType(); auto bwd = typename KernelUsed::ReduceType();
                for(size_t i = 0 ; i < per.size() ; ++i){ fwd = KernelUsed::ReduceType::Reduce(fwd, per[i]); bwd = KernelUsed::ReduceType::Reduce(per[per.size()-1-i], bwd); }
                if(long(per.size()) != job.nbWorkers) out.add("counter:number-of-kernel-copies", std::to_string(per.size()) + " copies for " + std::to_string(job.nbWorkers) + " workers");
                FX3::compareCounts(out, fwd, fx.referenceCounts());
                Outcome o2; FX3::compareCounts(o2, bwd, fx.referenceCounts());
                for(const auto& v : o2.violations) out.add(v.key + ":reverse-merge", v.detail);
            }
#endif
            algoPtr = nullptr;
        }
        vfs::RunTrace tr = vfs::endRun();
        tr.finalDigest = fullDigest(fx);
        // ---- invariants of one complete execution ----
        if(tr.finalDigest != seqDigest){
            Outcome o2; if constexpr (TSM) fx.checkPairsGeneral(o2, fx.extractTsmTargets(), true, 0, 0, true, true); else fx.checkPairs(o2, 1, true, true);
            std::string d = "final tree differs from the sequential executor";
            if(!o2.ok()) d += ": " + o2.violations[0].key + " " + o2.violations[0].detail;
            out.add("schedule:result-differs-from-sequential", d);
        }
        for(const auto& v : tr.violations) out.add("schedule:" + v.substr(0, v.find(':')), v);
        for(const auto& kv : fx.cx.violations) out.add("call:" + kv.first, kv.second);
        for(const auto& w : workerViolations) out.add(w.compare(0, 12, "OUT-OF-RANGE") == 0 ? "worker:kernel-index-out-of-range" : "worker:foreign-kernel", w);
        for(const auto& t : tr.tasks){
            if(!t.executed) out.add("schedule:task-not-executed", "task " + std::to_string(t.id));
            for(const auto& lv : t.lifetimeViolations){
                const size_t bar = lv.find('|');
                out.add("lifetime:" + lv.substr(0, bar) + ":" + shortLabel(t.label), "task " + std::to_string(t.id) + " (" + t.label + "): " + lv.substr(bar+1));
            }
        }
        if(trace) raceCheck(tr, out);
        return tr;
    }

    static std::string shortLabel(const std::string& l){
        // _ZN18TbfOpenmpAlgorithmI...E3M2MI...EEvRT_._omp_fn.0 -> keep the operator name if recognisable
        for(const char* op : {"M2LBetweenGroups", "P2PBetweenGroups", "P2M", "M2M", "M2L", "L2L", "L2P", "P2P"}){
            const std::string pat = std::string("E") + std::to_string(std::strlen(op)) + op;
            if(l.find(pat) != std::string::npos){
                const size_t f = l.rfind("_omp_fn.");
                return std::string(op) + (f != std::string::npos ? "." + l.substr(f+8) : "");
            }
        }
        return l.substr(0, 40);   // Specx / StarPU task names are used as they are
    }

    // happens-before race check on the explicit DAG: two tasks that are neither ordered by the transitive closure of the
    // declared dependencies nor mutually exclusive (shared commutative handle) must not touch a common byte of a tree
    // buffer with at least one write
    void raceCheck(const vfs::RunTrace& tr, Outcome& out){
        const auto ord = vfs::orderedClosure(tr.tasks);
        const size_t n = tr.tasks.size();
        for(size_t a = 0 ; a < n ; ++a) for(size_t b = a+1 ; b < n ; ++b){
            if(ord[a][b] || vfs::shareCommute(tr.tasks[a], tr.tasks[b])) continue;
            rep->counters["race_pairs_examined"] += 1;
            const auto& fa = tr.tasks[a].footprint; const auto& fb = tr.tasks[b].footprint;
            const auto& small = fa.size() < fb.size() ? fa : fb; const auto& big = fa.size() < fb.size() ? fb : fa;
            for(const auto& kv : small){
                auto it = big.find(kv.first);
                if(it == big.end()) continue;
                const unsigned wa = kv.second.writeMask, ra = kv.second.readMask, wb = it->second.writeMask, rb = it->second.readMask;
                if((wa & (wb | rb)) || (wb & (wa | ra))){
                    out.add("race:" + shortLabel(tr.tasks[a].label) + "-vs-" + shortLabel(tr.tasks[b].label),
                            "tasks " + std::to_string(a) + " and " + std::to_string(b) + " are unordered by the declared dependencies but touch the same bytes of a tree buffer with a write");
                    break;
                }
            }
        }
    }
};

std::string caseOf(const Job& job, const std::string& what){
    return "exec=" + std::string(ExecName) + " job=" + job.name + " W=" + std::to_string(job.nbWorkers) + " " + what + " tree: " + job.spec.str();
}

void runJob(const Job& job, const bool traceBuild, Report& rep, Progress& pg){
    const auto jobStart = std::chrono::steady_clock::now();
    JobRunner jr; jr.job = job; jr.trace = traceBuild; jr.rep = &rep;
    jr.computeSequential();
    // named schedules
    for(int p = 0 ; p < vfs::PolicyCount ; ++p){
        const std::string cs = caseOf(job, std::string("schedule=") + vfs::policyName(p));
        if(pg.sh){ std::snprintf(pg.sh->caseText, sizeof(pg.sh->caseText), "%s", cs.c_str()); pg.sh->heartbeat += 1; }
        Outcome out;
        const auto tr = jr.runOnce({}, vfs::Policy(p), out);
        rep.evaluations += 1; rep.traces += 1; rep.nontrivial += 1;
        rep.counters["max_tasks_in_graph"] = std::max<unsigned long>(rep.counters["max_tasks_in_graph"], tr.tasks.size());
        rep.addOutcome(out, cs);
        if(p == 0) rep.sample(cs + " -> " + std::to_string(tr.tasks.size()) + " tasks, " + std::to_string(tr.steps.size()) + " steps");
    }
    if(job.mode == 1){ pg.publish(rep); return; }
    // every worker assignment on the default schedule for small graphs
    {
        Outcome o0; const auto tr0 = jr.runOnce({}, vfs::DeferFifo, o0);
        const int n = int(tr0.tasks.size()), W = std::min(job.nbWorkers, 3);
        if(n <= 8 && W >= 2){
            std::vector<int> wo(n, 0);
            unsigned long count = 0;
            while(true){
                Outcome out; jr.runOnce({}, vfs::DeferLifo, out, wo);
                if(pg.sh) pg.sh->heartbeat += 1;
                rep.evaluations += 1; rep.traces += 1; ++count;
                rep.addOutcome(out, caseOf(job, "schedule=defer-all-lifo workers=" + vfs::prefixStr(wo)));
                int i = 0; while(i < n && ++wo[i] == W){ wo[i] = 0; ++i; }
                if(i == n) break;
            }
            rep.counters["worker_assignments"] += count;
        }
    }
    Outcome lastOut;
    vfs::Explorer ex;
    ex.bound = (job.mode == 2 ? job.bound : -1);
    ex.run = [&](const std::vector<int>& prefix){ Outcome out; auto tr = jr.runOnce(prefix, vfs::DeferFifo, out); lastOut = out; return tr; };
    ex.onRun = [&](const std::vector<int>& prefix, const vfs::RunTrace& tr){
        rep.evaluations += 1; rep.traces += 1;
        if(tr.replayError) rep.addOutcome(lastOut, caseOf(job, "INTERNAL replay error prefix=" + vfs::prefixStr(prefix)), "internal:");
        else rep.addOutcome(lastOut, caseOf(job, "prefix=" + vfs::prefixStr(prefix)));
        if((rep.evaluations & 1023) == 0) pg.publish(rep);
    };
    ex.onDivergence = [&](const std::vector<int>& a, const std::vector<int>& b, const vfs::SKey& k){
        Outcome out; out.add("schedule:two-orders-diverge", "the same set of executed tasks gives different tree contents: prefix A=" + vfs::prefixStr(a) + " prefix B=" + vfs::prefixStr(b) + " created=" + std::to_string(k.created));
        rep.addOutcome(out, caseOf(job, "prefix=" + vfs::prefixStr(b)));
    };
    ex.shouldStop = [&](){ return rep.timeUp(); };
    ex.breadcrumb = [&](const std::vector<int>& prefix){
        if(pg.sh){ std::snprintf(pg.sh->caseText, sizeof(pg.sh->caseText), "%s", caseOf(job, "prefix=" + vfs::prefixStr(prefix)).c_str()); pg.sh->heartbeat += 1; }
    };
    ex.explore({});
    rep.states += ex.stats.states; rep.transitions += ex.stats.transitions;
    rep.counters["runs"] += ex.stats.runs;
    rep.counters["max_distinct_terminal_digests"] = std::max<unsigned long>(rep.counters["max_distinct_terminal_digests"], ex.stats.terminalDigests);
    // graph + visited states for the TLC cross-check (models/TaskFlow.tla)
    if(job.mode == 0 && !ex.stats.capped && getenv("VF_DUMP_GRAPH_DIR")){
        Outcome o0; const auto tr0 = jr.runOnce({}, vfs::DeferFifo, o0);
        std::string execTag = ExecName; for(char& ch : execTag) if(!isalnum((unsigned char)ch)) ch = '_';
        const std::string path = std::string(getenv("VF_DUMP_GRAPH_DIR")) + "/" + execTag + "-" + (traceBuild ? "trace-" : "fast-") + job.name + "-W" + std::to_string(job.nbWorkers) + ".graph.json";
        std::ofstream f(path);
        f << "{\"exec\": \"" << ExecName << "\", \"job\": \"" << job.name << "\", \"N\": " << tr0.tasks.size() << ", \"ordered\": [";
        bool first = true;
        for(size_t a = 0 ; a < tr0.tasks.size() ; ++a) for(size_t b = a+1 ; b < tr0.tasks.size() ; ++b) if(vfs::orderedPair(tr0.tasks[a], tr0.tasks[b])){ f << (first ? "" : ",") << "[" << a+1 << "," << b+1 << "]"; first = false; }
        f << "], \"conflict\": [";
        first = true;
        if(traceBuild){
            for(size_t a = 0 ; a < tr0.tasks.size() ; ++a) for(size_t b = a+1 ; b < tr0.tasks.size() ; ++b){
                if(vfs::shareCommute(tr0.tasks[a], tr0.tasks[b])) continue;
                bool conf = false;
                for(const auto& kv : tr0.tasks[a].footprint){ auto it = tr0.tasks[b].footprint.find(kv.first); if(it == tr0.tasks[b].footprint.end()) continue; const unsigned wa = kv.second.writeMask, ra = kv.second.readMask, wb = it->second.writeMask, rb = it->second.readMask; if((wa & (wb|rb)) || (wb & (wa|ra))){ conf = true; break; } }
                if(conf){ f << (first ? "" : ",") << "[" << a+1 << "," << b+1 << "]"; first = false; }
            }
        }
        f << "], \"transitions\": " << ex.stats.transitions << ", \"states\": [";
        first = true;
        for(const auto& k : ex.visitedStates()){ f << (first ? "" : ",") << "[" << k.created << "," << k.m0 << "," << k.m1 << "]"; first = false; }
        f << "]}\n";
    }
    rep.nontrivial += 1;
    rep.counters["max_job_seconds"] = std::max<unsigned long>(rep.counters["max_job_seconds"], (unsigned long)std::chrono::duration<double>(std::chrono::steady_clock::now() - jobStart).count());
    rep.spaces.push_back(std::string(ExecName) + (traceBuild ? " [trace build] " : " [fast build] ") + job.name + " W=" + std::to_string(job.nbWorkers) + ": "
        + (job.mode == 0 ? "full state space" : "deviation bound " + std::to_string(job.bound)) + ": states=" + std::to_string(ex.stats.states)
        + " transitions=" + std::to_string(ex.stats.transitions) + " complete executions=" + std::to_string(ex.stats.runs)
        + " distinct terminal digests=" + std::to_string(ex.stats.terminalDigests) + (ex.stats.capped ? " CAPPED" : "") + " [" + std::to_string((long)std::chrono::duration<double>(std::chrono::steady_clock::now() - jobStart).count()) + " s]");
    if(ex.stats.capped) rep.cut();
    pg.publish(rep);
}

} // namespace

namespace { }

int main(int argc, char** argv){
    const Args args = Args::parse(argc, argv);
#ifdef VF_TRACE
    const bool traceBuild = true;
#else
    const bool traceBuild = false;
#endif
    if(!args.replay.empty()){
        // "job=<name> W=<w> schedule=<policy>|prefix=<...>"
        auto field = [&](const std::string& k){ const size_t p = args.replay.find(k + "="); if(p == std::string::npos) return std::string(); const size_t e = args.replay.find(' ', p); return args.replay.substr(p+k.size()+1, e == std::string::npos ? std::string::npos : e-(p+k.size()+1)); };
        const std::string jn = field("job"); const int W = std::stoi(field("W"));
        for(const std::string tier : {"quick", "thorough"}) for(const Job& job : jobsFor(tier, traceBuild)){
            if(job.name != jn || job.nbWorkers != W) continue;
            Report rep; JobRunner jr; jr.job = job; jr.trace = traceBuild; jr.rep = &rep; jr.computeSequential();
            Outcome out;
            vfs::Policy pol = vfs::DeferFifo; std::vector<int> prefix, workers;
            const std::string sched = field("schedule");
            for(int p = 0 ; p < vfs::PolicyCount ; ++p) if(sched == vfs::policyName(p)) pol = vfs::Policy(p);
            if(!field("prefix").empty()) prefix = vfs::parsePrefix(field("prefix"));
            if(!field("workers").empty()) workers = vfs::parsePrefix(field("workers"));
            const auto tr1 = jr.runOnce(prefix, pol, out, workers);
            Outcome out2; const auto tr2 = jr.runOnce(prefix, pol, out2, workers);
            if(tr1.finalDigest != tr2.finalDigest || out.violations.size() != out2.violations.size()){ std::cout << "REPLAY-NONDETERMINISTIC\n"; return 2; }
            for(const auto& v : out.violations) std::cout << "REPLAY-VIOLATION key=" << v.key << " detail=" << v.detail << "\n";
            std::cout << "replayed " << args.replay << " tasks=" << tr1.tasks.size() << " violations=" << out.violations.size() << "\n";
            return out.ok() ? 0 : 1;
        }
        std::cout << "unknown job in replay\n"; return 2;
    }
    return supervise(args, args.mode, [&](Report& rep, Progress& pg){
        const auto jobs = jobsFor(args.tier, traceBuild);
        for(size_t i = 0 ; i < jobs.size() ; ++i){
            if(i % args.nbSlices != args.slice) continue;
            if(rep.timeUp()){ rep.cutSpace(std::string(ExecName) + " " + jobs[i].name + ": not started before the deadline"); continue; }
            if(!pg.begin(caseOf(jobs[i], "start"))) continue;
            runJob(jobs[i], traceBuild, rep, pg);
        }
    }, 120, 20);
}
