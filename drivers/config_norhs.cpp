// C19: zero result values per particle and a particle data type different from the coordinate type
#include "spacial/tbfmortonspaceindex.hpp"
#include "spacial/tbfspacialconfiguration.hpp"
#include "core/tbftree.hpp"
#include "algorithms/sequential/tbfalgorithm.hpp"
#include <fstream>
#include <string>
#include <cstring>
template <class Real, class SI>
struct CountCellsKernel {
    explicit CountCellsKernel(const TbfSpacialConfiguration<Real, SI::Dim>&){}
    template <class S, class P, class L> void P2M(const S&, const long[], const P&, const long n, L& leaf){ leaf[0] += n; }
    template <class S, class C, class U> void M2M(const S&, const long, const C& lower, U& upper, const long[], const long n){ for(long i = 0 ; i < n ; ++i) upper[0] += lower[i].get()[0]; }
    template <class S, class C, class T> void M2L(const S&, const long, const C& src, const long[], const long n, T& tgt){ for(long i = 0 ; i < n ; ++i) tgt[0] += src[i].get()[0]; }
    template <class S, class U, class C> void L2L(const S&, const long, const U& upper, C& lower, const long[], const long n){ for(long i = 0 ; i < n ; ++i) lower[i].get()[0] += upper[0]; }
    template <class S, class L, class P, class R> void L2P(const S&, const L&, const long[], const P&, R&, const long){}
    template <class S, class P, class R> void P2P(const S&, const long[], const P&, R&, const long, const S&, const long[], const P&, R&, const long, const long){}
    template <class S, class P, class R> void P2PInner(const S&, const long[], const P&, R&, const long){}
};
template <class Real, class DataT, int Dim>
long go(long& cases){
    using SI = TbfMortonSpaceIndex<Dim, TbfSpacialConfiguration<Real,Dim>, false>;
    std::array<Real,Dim> w, c; w.fill(Real(1)); c.fill(Real(0.5));
    long bad = 0;
    for(int h = 1 ; h <= 4 ; ++h){
        TbfSpacialConfiguration<Real,Dim> cfg(h, w, c);
        std::vector<std::array<DataT,Dim+1>> pos;
        for(int i = 0 ; i < 30 ; ++i){ std::array<DataT,Dim+1> p; for(int d = 0 ; d < Dim ; ++d) p[d] = DataT(((i*(7+2*d))%30+0.5)/30); p[Dim] = DataT(0.1234567890123456789L*(i+1)); pos.push_back(p); }
        for(long bs : {-1L, 2L}){
            TbfTree<Real,DataT,Dim+1,double,0,std::array<long,1>,std::array<long,1>,SI> tree(cfg, pos, bs);
            TbfAlgorithm<Real,CountCellsKernel<Real,SI>,SI> algo(cfg, 0);
            algo.execute(tree);
            long root = -1; tree.applyToAllCells([&](long level, auto&&, auto&& m, auto&&){ if(level == 0) root = (*m).get()[0]; });
            ++cases; if(root != 30) ++bad;
            tree.rebuild();
            long n = 0; tree.applyToAllLeaves([&](auto&& hd, const long* idx, auto&& data, auto&&){ for(long p = 0 ; p < hd.nbParticles ; ++p){ ++n; if(std::memcmp(&data[Dim][p], &pos[idx[p]][Dim], sizeof(DataT)) != 0) ++bad; } });
            ++cases; if(n != 30) ++bad;
        }
    }
    return bad;
}
int main(int argc, char** argv){
    std::string out = "out.json";
    for(int i = 1 ; i+1 < argc ; ++i) if(std::string(argv[i]) == "--out") out = argv[i+1];
    long cases = 0, bad = 0;
    bad += go<double,double,3>(cases); bad += go<float,double,3>(cases); bad += go<double,float,2>(cases); bad += go<float,float,1>(cases); bad += go<double,float,4>(cases);
    std::ofstream f(out);
    f << "{\"property\": \"C19\", \"evaluations\": " << cases << ", \"nontrivial\": " << cases << ", \"states\": 0, \"transitions\": 0, \"traces\": 0, \"exhaustive\": true, \"violations\": [";
    if(bad) f << "{\"key\": \"norhs:wrong-result\", \"case\": \"zero-result-values unit\", \"detail\": \"" << bad << " wrong root counts / data values\", \"count\": " << bad << "}";
    f << "], \"samples\": [\"zero result values, data type != coordinate type: heights 1..4, 30 particles, automatic and explicit block size, execute + rebuild\"], \"spaces\": [\"zero-result-values translation unit\"], \"counters\": {}}\n";
    return 0;
}
