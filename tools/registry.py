"""Registry of checks: what to build, what to run, how the evidence is described."""

COMMON_ASSUME = [
    "g++ 12 and its standard library",
    "the harness's reference geometry (harness/vf_ref.hpp) and exact verification kernel (harness/vf_kernel.hpp)",
]


def tree_check(mode, rule, deadline_quick=600, deadline_thorough=2400):
    return {
        "builds": [{"name": "tree_driver", "sources": ["drivers/tree_driver.cpp"], "flags": ["-O1", "-g"]}],
        "runs": [{"driver": "tree_driver", "args": ["--mode", mode], "slices": 64}],
        "level": "exploration",
        "rule": rule,
        "assumptions": COMMON_ASSUME,
        "deadline": {"quick": deadline_quick, "thorough": deadline_thorough},
    }


CHECKS = {}

CHECKS["C01"] = tree_check(
    "C01",
    "every case = (occupancy pattern of the leaves of a (dim,height) tree: ALL non-empty subsets when <= 16 leaves, every subset of "
    "<= k leaves beyond) x particle motif x box x block size (1..n+1) x grouping mode x upper level, enumerated without repetition "
    "(so all cases are distinct); real TbfTree + real sequential executor + exact per-source kernel; oracle: count channel of every "
    "particle = 1 per other particle, 0 for itself, and every cell's multipole/local count = reference ancestor/interaction-list "
    "definition. Non-trivial = at least 2 particles and (at least one M2L elementary interaction or >= 2 leaf groups).")

CHECKS["C02"] = tree_check(
    "C02",
    "same enumeration as C01 on dyadic boxes; oracle (a) per operator call inside the kernel: particles inside the closed leaf box "
    "with inserted index and bit-identical data, children distinct/inside the parent/at level+1 with code = octant, transfer and "
    "direct sources at target+decode(code) at the stated level, separated resp. adjacent, never empty; (b) the exact degree-2 "
    "polynomial potential of every particle and the M1/M2 moments of every cell equal the direct sums, which holds iff every "
    "level/child code/offset code/box coordinate handed over was right. Non-trivial = at least one M2M, M2L or P2P call.")

CHECKS["C06"] = tree_check(
    "C06",
    "same enumeration plus motifs on faces/corners/upper box face/one ulp inside faces, 6 boxes (non-dyadic included); oracle: "
    "each input particle stored exactly once with its index and bit-identical data in a leaf whose closed box contains it, rhs and "
    "all expansion bytes zero after construction, symbolic and particle-data buffers byte-identical before/after execute(). "
    "Non-trivial = at least 2 particles.")

CHECKS["C07"] = tree_check(
    "C07",
    "same enumeration; oracle: strictly increasing indices across consecutive non-empty groups, header first/last/count = content, "
    "cells of level l = parents of level l+1 (coordinate definition) down to the occupied leaves, leaf cell groups = particle "
    "groups cell by cell, group size <= block size unless one-group-per-parent. Non-trivial = some level has >= 2 groups.")

CHECKS["C16"] = tree_check(
    "C16",
    "same enumeration; for every tree, EVERY index from -2 to upper bound+2 at every level through findGroupWithCell, "
    "findGroupWithLeaf, and per group getElementFromSpacialIndex / getElementFromParentIndex; oracle: found <=> member of the set "
    "of existing cells, handle designates that cell. Non-trivial = some level has >= 2 groups (gaps between groups exist).")

CHECKS["C08"] = tree_check(
    "C08",
    "for every input of the enumeration: one canonical run (single group) and one run per block size 1..n+1 x both grouping modes "
    "+ automatic block size + TBFMM_BLOCK_SIZE override; oracle: order-insensitive digest of elementary interactions (operator, "
    "level, target, source, position code) and all cell expansions / particle results bit-identical to the canonical run. "
    "Non-trivial = configuration with >= 2 leaf groups and >= 2 occupied leaves.")


# ---- E3: schedule exploration -----------------------------------------------------------------------------------
SCHED_OBJ = {"source": "harness/sched/vf_sched.cpp", "flags": ["-O1", "-g", "-fno-omit-frame-pointer"]}


def sched_builds(defs, driver="drivers/sched_driver.cpp", prefix="sd", extra_inc=None):
    fast = {"name": prefix + "_fast",
            "objects": [{"source": driver, "flags": ["-O2", "-g", "-fopenmp", "-fno-access-control"] + defs}, SCHED_OBJ],
            "link": ["-ldl", "-rdynamic"]}
    trace = {"name": prefix + "_trace",
             "objects": [{"source": driver, "flags": ["-O1", "-g", "-fno-inline", "-fno-omit-frame-pointer", "-fsanitize=thread",
                                                       "-fopenmp", "-fno-access-control", "-DVF_TRACE"] + defs}, SCHED_OBJ],
             "link": ["-ldl", "-rdynamic"]}
    if extra_inc:
        fast["includes_first"] = extra_inc
        trace["includes_first"] = extra_inc
    return [fast, trace]


MC_ASSUME = COMMON_ASSUME + [
    "the mock task runtime's reading of the dependency semantics (harness/sched/vf_sched.cpp): a task may start when every earlier "
    "task with a conflicting access mode on a common handle has finished; commutative accesses are unordered but exclusive",
    "tasks are atomic steps of the explorer; overlap inside tasks is covered by the footprint race check on the explicit DAG, "
    "not by interleaving; memcpy/memset inside libc are invisible to the access trace",
    "gcc's OpenMP lowering (GOMP ABI: argument block copy, depend array layout)",
]

MOCK_INC = ["harness/mock"]
def tlc_post(bdir, tier):
    """TLC enumerates the reachable states of models/TaskFlow.tla for every task graph recorded from the implementation;
    state set and transition count must equal the explorer's (conformance of model and code in both directions)."""
    import os, sys
    sys.path.insert(0, os.path.dirname(os.path.abspath(__file__)))
    import tlc_crosscheck
    res = tlc_crosscheck.crosscheck(os.path.join(bdir, "graphs"), os.path.join(bdir, "tlcwork"), max_states=(3000 if tier != "thorough" else None))
    viol = []
    for r in res:
        if not r["ok"]:
            viol.append({"key": "tlc:model-and-explorer-disagree", "case": "exec=%s job=%s" % (r["exec"], r["job"]), "detail": "; ".join(r["problems"])[:600],
                         "driver": "", "replay_args": [], "count": 1, "compile_cmd": "tlc"})
    cov = {"tlc_crosscheck": {"graphs": len(res), "tlc_states": sum(r.get("tlc_distinct", 0) for r in res),
                              "tlc_transitions": sum(r.get("tlc_generated", 1) - 1 for r in res),
                              "all_equal_to_explorer": all(r["ok"] for r in res),
                              "per_graph": [{k: r.get(k) for k in ("exec", "job", "N", "explorer_states", "tlc_distinct", "explorer_transitions", "tlc_generated")} for r in res]}}
    return viol, cov


CHECKS["C03"] = {
    "dump_graphs": True,
    "post": tlc_post,
    "builds": sched_builds(["-DVF_EXEC_OMP"]) + sched_builds(["-DVF_EXEC_SPECX"], prefix="sdx", extra_inc=MOCK_INC)
              + sched_builds(["-DVF_EXEC_STARPU"], prefix="sdu", extra_inc=MOCK_INC)
              + [sched_builds(["-DVF_EXEC_SPECX_TSM"], prefix="sdxt", extra_inc=MOCK_INC)[0]]
              + [sched_builds(["-DVF_EXEC_STARPU_TSM"], prefix="sdut", extra_inc=MOCK_INC)[0]],
    "runs": [{"driver": "sd_fast", "args": ["--mode", "C03"], "slices": 48, "tag": "fast"},
             {"driver": "sd_trace", "args": ["--mode", "C03"], "slices": 48, "tag": "trace"},
             {"driver": "sdx_fast", "args": ["--mode", "C03"], "slices": 48, "tag": "fast"},
             {"driver": "sdx_trace", "args": ["--mode", "C03"], "slices": 48, "tag": "trace"},
             {"driver": "sdu_fast", "args": ["--mode", "C03"], "slices": 48, "tag": "fast"},
             {"driver": "sdu_trace", "args": ["--mode", "C03"], "slices": 48, "tag": "trace"},
             {"driver": "sdxt_fast", "args": ["--mode", "C03"], "slices": 48, "tag": "fast"},
             {"driver": "sdut_fast", "args": ["--mode", "C03"], "slices": 48, "tag": "fast"}],
    "level": "model_checking",
    "rule": "states = abstract states (tasks created, set of tasks executed) of the task graph the real executor submits for a driver "
            "tree; transitions = create / run(k) steps; every transition out of every reachable state is executed at least once by "
            "replaying a choice prefix on a fresh tree + algorithm object (stateless exploration with state cache); invariants: "
            "confluence of the tree digest at every state, bit-identical equality with the sequential executor at the terminal "
            "state, per-call argument predicates, worker discipline, and in the trace build byte-exact footprint race check over "
            "all unordered task pairs + frame-exact lifetime check of every access to the submitter's stack. Mid-size trees: five "
            "named schedules (defer-all FIFO/LIFO/priority/inverted priority, run-at-creation) x W in {1,2,3,16}; deviation-bounded "
            "exploration where stated. evaluations = complete executions on the real code.",
    "assumptions": MC_ASSUME,
    "deadline": {"quick": 600, "thorough": 3000},
}


CHECKS["C11"] = {
    "builds": [{"name": "index_driver", "sources": ["drivers/index_driver.cpp"], "flags": ["-O1", "-g"]}],
    "runs": [{"driver": "index_driver", "args": ["--mode", "C11"], "slices": 32}],
    "level": "exploration",
    "replayable": False,
    "rule": "every cell of every level of trees up to a bounded height for Morton dim 1..4 (periodic and not) and Hilbert dim 3, "
            "plus the boundary lattice {0..3, mid-1..mid+1, max-3..max}^dim at levels up to the largest whose indices fit 63 bits; "
            "per cell: encode/decode bijection and upper bound, parent = containing cell, child code = octant, neighbour list "
            "(with/without upper-half filter) and interaction list = set equality with the geometric definitions; per group "
            "(every contiguous run of <= 3 cells of dense and gapped levels): internal/external split, self-inclusion filter, "
            "position codes decode to the true offset; position-code encode/decode inverse. Cases are distinct by construction; "
            "non-trivial = level >= 2 or a group case.",
    "assumptions": COMMON_ASSUME,
    "deadline": {"quick": 300, "thorough": 1800},
}


CHECKS["C20"] = {
    "builds": [{"name": "p2p_driver", "sources": ["drivers/p2p_driver.cpp"], "flags": ["-O1", "-g"]}],
    "runs": [{"driver": "p2p_driver", "args": ["--mode", "C20"], "slices": 32}],
    "level": "exploration",
    "replayable": False,
    "rule": "every (source count, target count) of the count lattice x separation scale x 3 deterministic layout families (line, cubic "
            "lattice, tight cluster far from the origin; charges of both signs) x float/double, through GenericFullRemote, FullMutual, "
            "GenericInner and their *Scalar entry points, with pre-filled result arrays; oracle: long double evaluation of sum q_j/r and "
            "q_i q_j (x_j-x_i)/r^3, tolerance 16(n+4)eps of the sum of absolute contributions; mutual = two one-sided; total force zero; "
            "inner excludes the self term. Distinct by construction; non-trivial = both counts >= 1.",
    "assumptions": ["g++ 12 long double (x87 80-bit) arithmetic as the reference", "scalar path only: Inastemp is not installed"],
    "deadline": {"quick": 300, "thorough": 1800},
}


def hist_check(mode, rule, deadline_quick=600, deadline_thorough=2400):
    return {
        "builds": [{"name": "hist_driver", "sources": ["drivers/hist_driver.cpp"], "flags": ["-O1", "-g", "-DVF_" + mode]}],
        "runs": [{"driver": "hist_driver", "args": ["--mode", mode], "slices": 32}],
        "level": "model_checking",
        "replayable": False,
        "rule": rule,
        "assumptions": COMMON_ASSUME + ["states are operation histories rebuilt by replay on fresh real objects; the canonical key (observable state) is used to prune, replay determinism is asserted by digest equality per state"],
        "deadline": {"quick": deadline_quick, "thorough": deadline_thorough},
    }


CHECKS["C12"] = hist_check(
    "C12",
    "per (tree, upper working level 0..height): explicit-state BFS over the flag states (set of operators already applied: chain prefix "
    "P2M<=M2M<=M2L<=L2L<=L2P x P2P) where each transition is one real execute(flags) call replayed on a fresh tree; every legal next "
    "call from every state, every single flag alone from every state, and all 112 complete dependency-ordered partitions; invariants: "
    "same tree digest for a state whatever the path, final state = one full run, buffer diff of a call within its operators' outputs, "
    "no cell written and no operator called above the upper level, only requested operators run. transitions = execute() calls.")

CHECKS["C13"] = hist_check(
    "C13",
    "BFS over histories of {move(particle p -> leaf l), rebuild, execute} up to the stated depth on small trees (all leaves x all "
    "particles in the move alphabet), pruned by the canonical key (positions, accumulated results, pending flag); after every rebuild: "
    "structure invariants, equality of the cell structure with a tree freshly built from the edited particles, every particle once with "
    "its index, bit-identical data and preserved results, all expansions zero; after the e-th execute every pair has multiplicity e and "
    "the exact accumulated potential. Variants: extra data values, data type different from the coordinate type, periodic ordering, "
    "both grouping modes. transitions = operations replayed; distinct_nontrivial = distinct canonical states reached by at least one operation.")

CHECKS["C17"] = hist_check(
    "C17",
    "per instantiation (NbData {1,2,3,4,6} x NbRhs {0,1,4} x coordinate/data types x dims 1..3) and tree: the history build, export, accumulate, "
    "export, move+rebuild, export, accumulate, export; particles are inserted in reverse leaf order so that the internal order differs "
    "from the insertion order; oracle: entry i of getAllParticlesData / getAllParticlesRhs = values of the particle inserted at "
    "position i. states = points of the history at which the export is compared.")


CHECKS["C14"] = {
    "builds": [{"name": "mem_driver", "sources": ["drivers/mem_driver.cpp"], "flags": ["-O1", "-g"]}],
    "runs": [{"driver": "mem_driver", "args": ["--mode", "C14"], "slices": 32}],
    "level": "model_checking",
    "replayable": False,
    "rule": "Part A: for 11 block layouts (1-4 sub-blocks of scalar/vector/multi-row/multi-col kinds, element sizes 1,2,8,16,24,64,128,4096) "
            "BFS over histories of {18 reset size vectors from {0,1,7,8,9,63,64,65,10^4}, write pattern, move-construct, move-assign, "
            "byte-copy + raw-memory view} to the stated depth, pruned by (model, allocated size); after every operation every accessor "
            "returns the model value, every element lies inside [ptr, ptr+allocated-trailer), blocks do not overlap, a view over a byte "
            "copy (both construction modes) returns identical values, a moved-from block is empty. Part B: for every group of every "
            "enumerated tree the raw-memory views over byte copies agree accessor by accessor with the originals, and the sequential "
            "executor run on a tree made only of such views leaves byte-identical buffers.",
    "assumptions": COMMON_ASSUME + ["over-aligned element types (alignment > 16) are outside the enumerated alphabet"],
    "deadline": {"quick": 600, "thorough": 2400},
}


def tsmper_check(mode, rule):
    return {
        "builds": [{"name": "tsmper_driver", "sources": ["drivers/tsmper_driver.cpp"], "flags": ["-O1", "-g", "-fno-access-control", "-DVF_" + mode]}],
        "runs": [{"driver": "tsmper_driver", "args": ["--mode", mode], "slices": 64}],
        "level": "exploration",
        "replayable": False,
        "rule": rule,
        "assumptions": COMMON_ASSUME,
        "deadline": {"quick": 600, "thorough": 2400},
    }


CHECKS["C10"] = tsmper_check(
    "C10",
    "every occupancy pattern (all subsets of small trees, subsets of <= k leaves beyond) x motifs including particles on the periodic "
    "faces and the upper box corner x dyadic boxes (unit, per-dimension widths, shifted) x extra levels -1..3 (5 in thorough) x block "
    "sizes x grouping modes x {single tree + TbfAlgorithmPeriodicTopTree, target/source + TbfAlgorithmPeriodicTopTreeTsm with sources "
    "on the same and on the mirrored leaves}, run through the documented four-call sequence; oracle per ordered pair: multiplicity = "
    "number of images in getRepetitionsIntervals() (minus the self term), which must equal getNbTotalRepetitions(), and the exact "
    "potential = closed-form sum of |x_i - x_j - nW|^2 over that interval, plus the per-call predicates (offset codes modulo the box). "
    "Distinct by construction; non-trivial = at least one particle.")


CHECKS["C09"] = {
    "builds": tsmper_check("C09", "")["builds"] + sched_builds(["-DVF_EXEC_OMP_TSM"], prefix="sdt"),
    "runs": [{"driver": "tsmper_driver", "args": ["--mode", "C09"], "slices": 64, "tag": "seq"},
             {"driver": "sdt_fast", "args": ["--mode", "C09"], "slices": 48, "tag": "fast"},
             {"driver": "sdt_trace", "args": ["--mode", "C09"], "slices": 48, "tag": "trace"}],
    "level": "model_checking",
    "replayable": False,
    "rule": "(a) sequential target/source executor: every ordered pair (source occupancy pattern, target occupancy pattern) of small "
            "trees (all 255 x 255 for 1-D height 4 and 3-D height 2, subsets of <= k leaves on each side beyond) x motifs (identical "
            "positions on both sides included) x block sizes x grouping modes; oracle: each target has exactly one contribution per "
            "source (count channel) with the exact potential, no P2P/P2PInner call, source particle buffers byte-identical, both trees "
            "satisfy the construction and structure invariants, per-call predicates. (b) OpenMP target/source executor under the E3 "
            "explorer exactly as C03 (full state space of the small driver graphs, named schedules on mid-size trees, race and "
            "lifetime oracles in the trace build). states/transitions are those of (b); evaluations = executions of (a) + (b).",
    "assumptions": MC_ASSUME,
    "deadline": {"quick": 600, "thorough": 3000},
}


CHECKS["C18"] = {
    "builds": tree_check("C18", "")["builds"] + sched_builds(["-DVF_EXEC_OMP", "-DVF_COUNTER"], prefix="sdc"),
    "runs": [{"driver": "tree_driver", "args": ["--mode", "C18"], "slices": 64, "tag": "seq"},
             {"driver": "sdc_fast", "args": ["--mode", "C18"], "slices": 48, "tag": "fast"}],
    "level": "model_checking",
    "replayable": False,
    "rule": "(a) sequential executor, TbfInteractionCounter wrapped around the exact kernel, on the C01 enumeration: tree contents identical "
            "to the unwrapped kernel and each counter equal to the reference count implied by the tree (leaves; parent-child links at "
            "working levels; existing members of interaction lists; sum n_a n_b over adjacent leaf pairs; sum n(n-1)). (b) OpenMP "
            "executor under the E3 explorer (full state space of the small driver graphs, named schedules on mid-size trees, W in "
            "{1,2,3,16}, every worker assignment W^N for N <= 8): after every complete execution the per-worker counters merged with "
            "Reduce over applyToAllKernels (forward and reverse order) equal the reference counts and the tree equals the sequential one.",
    "assumptions": MC_ASSUME,
    "deadline": {"quick": 600, "thorough": 3000},
}


# ---- C19: one translation unit per documented configuration -----------------------------------------------------------
def _c19():
    builds, runs = [], []
    order_names = {0: "morton", 1: "morton-periodic", 2: "hilbert"}
    exec_names = {0: "sequential", 1: "openmp", 2: "sequential-tsm", 3: "openmp-tsm"}
    for dim in (1, 2, 3, 4):
        for real in ("float", "double"):
            for order in (0, 1, 2):
                if order == 2 and dim != 3:
                    continue
                for ex in (0, 1, 2, 3):
                    name = "cfg_d%d_%s_%s_%s" % (dim, real, order_names[order], exec_names[ex])
                    flags = ["-O0", "-fno-access-control", "-DVF_DIM=%d" % dim, "-DVF_REAL=%s" % real, "-DVF_ORDER=%d" % order, "-DVF_EXEC=%d" % ex]
                    if ex in (1, 3):
                        flags.append("-fopenmp")
                    builds.append({"name": name, "sources": ["drivers/config_tu.cpp"], "flags": flags, "libs": ["-fopenmp"] if ex in (1, 3) else [],
                                   "build_failure_key": "build:" + name, "case": "configuration " + name})
                    runs.append({"driver": name, "args": ["--mode", "C19"], "slices": 1, "tag": "r", "crash_key": "crash:" + name})
    for real in ("float", "double"):      # data type different from the coordinate type, extra data values
        for ex in (0, 2):
            name = "cfg_d3_%s_otherdata_%s" % (real, exec_names[ex])
            builds.append({"name": name, "sources": ["drivers/config_tu.cpp"],
                           "flags": ["-O0", "-fno-access-control", "-DVF_DIM=3", "-DVF_REAL=%s" % real, "-DVF_ORDER=0", "-DVF_EXEC=%d" % ex, "-DVF_DATA_OTHER"],
                           "build_failure_key": "build:" + name, "case": "configuration " + name})
            runs.append({"driver": name, "args": ["--mode", "C19"], "slices": 1, "tag": "r", "crash_key": "crash:" + name})
    builds.append({"name": "cfg_hilbert_only", "sources": ["drivers/config_hilbert_only.cpp"], "flags": ["-O0"],
                   "build_failure_key": "build:hilbert-only-unit", "case": "unit including only the Hilbert ordering"})
    runs.append({"driver": "cfg_hilbert_only", "args": [], "slices": 1, "tag": "r", "crash_key": "crash:hilbert-only-unit"})
    builds.append({"name": "cfg_norhs", "sources": ["drivers/config_norhs.cpp"], "flags": ["-O0"],
                   "build_failure_key": "build:zero-result-values-unit", "case": "zero result values, data type != coordinate type"})
    runs.append({"driver": "cfg_norhs", "args": [], "slices": 1, "tag": "r", "crash_key": "crash:zero-result-values-unit"})
    builds.append({"name": "cfg_selecter",
                   "objects": [{"source": "drivers/config_selecter.cpp", "flags": ["-O0", "-fopenmp", "-fno-access-control"]}, SCHED_OBJ],
                   "link": ["-ldl"], "includes_first": ["harness/mock"],
                   "build_failure_key": "build:selecter-with-openmp-specx-starpu", "case": "tbfalgorithmselecter.hpp with TBF_USE_OPENMP, TBF_USE_SPECX, TBF_USE_STARPU"})
    runs.append({"driver": "cfg_selecter", "args": ["--mode", "C19"], "slices": 1, "tag": "r", "crash_key": "crash:selecter-unit"})
    return builds, runs


_C19B, _C19R = _c19()
CHECKS["C19"] = {
    "builds": _C19B,
    "runs": _C19R,
    "level": "exploration",
    "replayable": False,
    "rule": "the finite cross product dimension {1,2,3,4} x coordinate type {float,double} x ordering {Morton, periodic Morton, Hilbert(3-D)} x "
            "executor {sequential, OpenMP (real libgomp, 3 threads), sequential target/source, OpenMP target/source}, one translation unit each "
            "(%d units), plus units for a data type different from the coordinate type with extra data values, zero result values, the "
            "Hilbert ordering alone, and tbfalgorithmselecter.hpp with OpenMP+Specx+StarPU all enabled (mock runtime headers). A unit that "
            "does not compile is a violation (key build:<unit>, compiler diagnostics in the replay file); a unit that compiles runs the "
            "exactly-once, construction and rebuild oracles on heights 1..4 x 3 leaf sets x {automatic, explicit} block size x {without, "
            "with move+rebuild}. evaluations = oracle runs; distinct by construction." % len(_C19B),
    "assumptions": COMMON_ASSUME + ["g++ 12 is the only compiler front end used to decide 'compiles'", "Specx/StarPU only through the mock headers"],
    "deadline": {"quick": 600, "thorough": 1200},
}


# ---- C15: the drivers of the other checks rebuilt with AddressSanitizer + UndefinedBehaviorSanitizer, assertions on ---------
SAN = ["-O1", "-g", "-fsanitize=address,undefined", "-fno-sanitize-recover=undefined", "-fno-omit-frame-pointer"]
SAN_LINK = ["-fsanitize=address,undefined"]


def _c15():
    b = []
    b.append({"name": "tree_asan", "sources": ["drivers/tree_driver.cpp"], "flags": SAN, "libs": SAN_LINK})
    for m in ("C12", "C13", "C17"):
        b.append({"name": "hist_asan_" + m, "sources": ["drivers/hist_driver.cpp"], "flags": SAN + ["-DVF_" + m, "-DVF_C17_LIGHT"], "libs": SAN_LINK})
    b.append({"name": "mem_asan", "sources": ["drivers/mem_driver.cpp"], "flags": SAN, "libs": SAN_LINK})
    for m in ("C09", "C10"):
        b.append({"name": "tsmper_asan_" + m, "sources": ["drivers/tsmper_driver.cpp"], "flags": SAN + ["-fno-access-control", "-DVF_" + m], "libs": SAN_LINK})
    b.append({"name": "index_asan", "sources": ["drivers/index_driver.cpp"], "flags": SAN, "libs": SAN_LINK})
    sched_obj = {"source": "harness/sched/vf_sched.cpp", "flags": SAN}
    for tag, d, inc in (("omp", "-DVF_EXEC_OMP", None), ("omptsm", "-DVF_EXEC_OMP_TSM", None), ("specx", "-DVF_EXEC_SPECX", MOCK_INC), ("starpu", "-DVF_EXEC_STARPU", MOCK_INC)):
        e = {"name": "sched_asan_" + tag, "objects": [{"source": "drivers/sched_driver.cpp", "flags": SAN + ["-fopenmp", "-fno-access-control", d]}, sched_obj],
             "link": SAN_LINK + ["-ldl", "-rdynamic"]}
        if inc:
            e["includes_first"] = inc
        b.append(e)
    # the numerical kernels (rotation, uniform) on small trees: the only users of the periodic position shifter and of the
    # kernels' own heap tables
    b.append({"name": "num_asan_C04", "objects": [{"source": "drivers/num_driver.cpp", "flags": SAN + ["-fopenmp", "-DVF_C04", "-DVF_NUM_LIGHT"]}, sched_obj],
              "link": SAN_LINK + ["-ldl", "-rdynamic"]})
    b.append({"name": "num_asan_C05", "objects": [{"source": "drivers/num_driver.cpp", "flags": SAN + ["-fopenmp", "-DVF_C05", "-DVF_NUM_LIGHT", "-DTBF_USE_FFTW"]}, sched_obj],
              "link": SAN_LINK + ["-ldl", "-rdynamic", "-lfftw3", "-lfftw3f"]})
    r = [
        {"driver": "num_asan_C04", "args": ["--mode", "C04"], "slices": 16, "slice_subset": 16, "tag": "r"},
        {"driver": "num_asan_C05", "args": ["--mode", "C05"], "slices": 16, "slice_subset": 16, "tag": "r"},
        {"driver": "tree_asan", "args": ["--mode", "C02"], "slices": 256, "slice_subset": 6, "tag": "c02"},
        {"driver": "tree_asan", "args": ["--mode", "C06"], "slices": 256, "slice_subset": 4, "tag": "c06"},
        {"driver": "tree_asan", "args": ["--mode", "C16"], "slices": 256, "slice_subset": 2, "tag": "c16"},
        {"driver": "tree_asan", "args": ["--mode", "C08"], "slices": 256, "slice_subset": 2, "tag": "c08"},
        {"driver": "hist_asan_C12", "args": ["--mode", "C12"], "slices": 32, "slice_subset": 32, "tag": "r"},
        {"driver": "hist_asan_C13", "args": ["--mode", "C13"], "slices": 32, "slice_subset": 32, "tag": "r"},
        {"driver": "hist_asan_C17", "args": ["--mode", "C17"], "slices": 1, "slice_subset": 1, "tag": "r"},
        {"driver": "mem_asan", "args": ["--mode", "C14"], "slices": 32, "slice_subset": 11, "tag": "r"},
        {"driver": "tsmper_asan_C09", "args": ["--mode", "C09"], "slices": 64, "slice_subset": 2, "tag": "r"},
        {"driver": "tsmper_asan_C10", "args": ["--mode", "C10"], "slices": 64, "slice_subset": 8, "tag": "r"},
        {"driver": "index_asan", "args": ["--mode", "C11"], "slices": 32, "slice_subset": 8, "tag": "r"},
    ]
    for tag in ("omp", "omptsm", "specx", "starpu"):
        r.append({"driver": "sched_asan_" + tag, "args": ["--mode", "C15"], "slices": 48, "slice_subset": 48, "tag": "r", "light": True})
    return b, r


_C15B, _C15R = _c15()


def _c15_runs(tier, seed):
    if tier != "thorough":
        return _C15R
    full = []
    for r in _C15R:
        r2 = dict(r)
        r2["slice_subset"] = r2["slices"]
        full.append(r2)
    return full


CHECKS["C15"] = {
    "builds": _C15B,
    "runs": _c15_runs,
    "level": "exploration",
    "replayable": False,
    "only_keys": "(crash|leak|hang):.*",
    "env": {"VF_SCHED_LIGHT": "1", "ASAN_OPTIONS": "detect_stack_use_after_return=1:detect_leaks=1:abort_on_error=1:allocator_may_return_null=1",
            "UBSAN_OPTIONS": "print_stacktrace=1:halt_on_error=1"},
    "rule": "the drivers of C01/C02/C06/C08/C16 (tree), C12/C13/C17 (histories), C14 (memory blocks and views), C09/C10 (target/source, "
            "periodic), C11 (index algebra), C04/C05 (rotation and uniform kernels incl. their periodic and target/source runs, smallest order, heights <= 3) and the schedule explorer for the OpenMP, OpenMP target/source, Specx and StarPU executors "
            "(fast build) rebuilt with -fsanitize=address,undefined -fno-sanitize-recover=undefined, assertions on, "
            "detect_stack_use_after_return=1 and an explicit leak check at the end of every slice, each run on a fixed subset of its "
            "quick space (the slices with the lowest ordinals; the full quick spaces in the thorough tier). Oracle: any sanitizer "
            "report, assertion failure, fatal signal, hang or leak, attributed to the case being executed. Violations of the drivers' "
            "own oracles belong to their properties and are not counted here. evaluations = cases executed under the sanitizers.",
    "assumptions": ["gcc 12 ASan/UBSan/LSan runtimes", "ucontext switches of the mock runtime are annotated for ASan (start/finish_switch_fiber)",
                    "tasks are atomic: overlap inside tasks is not exercised (see C03's race check)"],
    "deadline": {"quick": 420, "thorough": 3000},
}


def num_check(mode, libs, rule):
    return {
        "builds": [{"name": "num_driver", "objects": [{"source": "drivers/num_driver.cpp", "flags": ["-O2", "-g", "-fopenmp", "-DVF_" + mode, "-DTBF_USE_FFTW"]}, SCHED_OBJ],
                    "link": ["-ldl"] + libs}],
        "runs": [{"driver": "num_driver", "args": ["--mode", mode], "slices": 16}],
        "level": "exploration",
        "replayable": False,
        "rule": rule,
        "assumptions": ["x87 long double direct sum as the reference", "error bounds are fixed constants: 3 x the worst case measured over this deterministic space on the delivered tree (empirical; the weakest oracle of the suite)",
                        "values are continuous: only the enumerated particle sets / boxes / heights are covered", "OpenMP executor through the mock runtime (harness/sched) under named schedules"],
        "deadline": {"quick": 900, "thorough": 3000},
    }


CHECKS["C04"] = num_check("C04", [],
    "rotation kernel: every (P in {4,8}; thorough adds 6,12) x height 1..5 (6) x box {unit, centre -11.3 width 3.7, centre 100 width 1/64} x 5 "
    "deterministic particle sets (points on cell/box faces and edges; clustered corner + far particles; two far clusters; low-discrepancy "
    "set; leaf centres and axes) with charges of both signs x double (thorough: float) x grouping/executor matrix {single group; block 1; "
    "block 3 one-group-per-parent; OpenMP under defer-all FIFO and LIFO (thorough: inverted priority, run-at-creation, automatic block "
    "size)}; oracle: finite results; error against a long double direct sum, normalised by the sum of absolute pair contributions, below "
    "the per-order bound; errors not growing with the order; results equal to 2^16 eps across groupings/executors; potential linear in "
    "the charges (q = q1 + q2). evaluations = FMM executions; non-trivial = height >= 4 (M2M/L2L used).")
CHECKS["C05"] = num_check("C05", ["-lfftw3", "-lfftw3f"],
    "uniform kernel: every (order in {4,5,6}; thorough adds 3,7,8) x height 1..5 (6) x 3 boxes x 5 particle sets x double (thorough: float) "
    "x grouping/executor matrix (block size 1 delivers the children of a parent in several batches, single group in one); oracle as C04: "
    "finite, error below the per-order bound, error shrinking with the order, equal to rounding across groupings/executors/batches, "
    "linear in the charges.")


# ---- the clauses of C02/C06/C07/C16 about the other executors / trees are decided by the drivers that build those objects ----
_TSMPER_B = lambda mode: {"name": "tsmper_" + mode, "sources": ["drivers/tsmper_driver.cpp"], "flags": ["-O1", "-g", "-fno-access-control", "-DVF_" + mode]}
CHECKS["C02"]["builds"] = CHECKS["C02"]["builds"] + [_TSMPER_B("C09"), _TSMPER_B("C10")]
CHECKS["C02"]["runs"] = CHECKS["C02"]["runs"] + [
    {"driver": "tsmper_C09", "args": ["--mode", "C09"], "slices": 64, "slice_subset": 16, "tag": "tsm", "only_keys": "(tsm-)?(call|geometry):.*", "replayable": False},
    {"driver": "tsmper_C10", "args": ["--mode", "C10"], "slices": 64, "slice_subset": 32, "tag": "per", "only_keys": "(tsm-)?(call|geometry):.*", "replayable": False}]
CHECKS["C02"]["rule"] += (" Other executors: the same per-call predicates and exact potentials through the sequential target/source executor and the "
                          "periodic four-call sequence with both top trees (subsets of the C09/C10 spaces; only call:/geometry: keys count here); "
                          "the OpenMP, Specx and StarPU executors run with the predicates on under the schedule explorer of C03.")
for _pid, _keys, _what in (("C06", "(source|target)-construction:.*", "construction of the source and target trees of the target/source variant"),
                           ("C07", "(source|target)-structure:.*", "structure of the source and target trees of the target/source variant"),
                           ("C16", "(source|target)-lookup:.*", "lookups on the source and target trees of the target/source variant")):
    CHECKS[_pid]["builds"] = CHECKS[_pid]["builds"] + [_TSMPER_B("C09")]
    CHECKS[_pid]["runs"] = CHECKS[_pid]["runs"] + [{"driver": "tsmper_C09", "args": ["--mode", "C09"], "slices": 64, "slice_subset": 16, "tag": "tsm", "only_keys": _keys, "replayable": False}]
    CHECKS[_pid]["rule"] += " Plus: " + _what + " on a subset of the C09 space (slices 0..15 of 64)."
CHECKS["C07"]["builds"] = CHECKS["C07"]["builds"] + [{"name": "hist_C13", "sources": ["drivers/hist_driver.cpp"], "flags": ["-O1", "-g", "-DVF_C13"]}]
CHECKS["C07"]["runs"] = CHECKS["C07"]["runs"] + [{"driver": "hist_C13", "args": ["--mode", "C13"], "slices": 32, "tag": "rebuild", "only_keys": "rebuild:structure:.*", "replayable": False}]
CHECKS["C07"]["rule"] += " Trees after rebuild: the structure invariants after every rebuild of the C13 history search (only rebuild:structure: keys count here)."
CHECKS["C06"]["rule"] += (" The clause 'execution of any executor never alters positions, indices or cell headers' for the task-based executors is "
                          "decided by C03/C09: every terminal state of the explorer must have all buffers, symbolic ones included, byte-identical to the sequential run.")
CHECKS["C08"]["rule"] += (" Other executors: C03 proves each task-based executor bit-identical to the sequential one for the same grouping, so grouping "
                          "independence of the sequential executor carries over.")

CHECKS["C12"]["builds"] = CHECKS["C12"]["builds"] + [{"name": "hist_C12_omp",
    "objects": [{"source": "drivers/hist_driver.cpp", "flags": ["-O1", "-g", "-fopenmp", "-DVF_C12", "-DVF_C12_OMP"]}, SCHED_OBJ], "link": ["-ldl"]}]
CHECKS["C12"]["runs"] = CHECKS["C12"]["runs"] + [{"driver": "hist_C12_omp", "args": ["--mode", "C12"], "slices": 32, "tag": "omp"}]
CHECKS["C12"]["rule"] += (" The same flag-state search is repeated with the OpenMP executor under the mock runtime, every execute() call scheduled by a named "
                          "schedule (defer-all FIFO, run-at-creation, defer-all LIFO, inverted priority) on the 3-D trees.")

CHECKS["C10"]["builds"] = CHECKS["C10"]["builds"] + [{"name": "tsmper_C10_omp",
    "objects": [{"source": "drivers/tsmper_driver.cpp", "flags": ["-O1", "-g", "-fopenmp", "-fno-access-control", "-DVF_C10", "-DVF_C10_OMP"]}, SCHED_OBJ], "link": ["-ldl"]}]
CHECKS["C10"]["runs"] = CHECKS["C10"]["runs"] + [{"driver": "tsmper_C10_omp", "args": ["--mode", "C10"], "slices": 64, "tag": "omp"}]
CHECKS["C10"]["rule"] += (" The whole space is run a second time with the OpenMP executors (single tree and target/source) under the mock runtime, each execute() call "
                          "of the sequence under a named schedule (defer-all FIFO/LIFO/priority/inverted priority, run-at-creation, rotating with the case ordinal).")

CHECKS["C08"]["replayable"] = False      # a C08 violation is a comparison of two runs; it is re-run through the enumeration

for _pid in ("C04", "C05"):
    CHECKS[_pid]["rule"] += (" Periodic variant: the documented four-call sequence (periodic ordering + top tree, extra levels -1..1, thorough 2) on heights 2..3 (4) against the "
                             "explicit long double sum over all images of getRepetitionsIntervals(), with its own per-order bounds; target/source variant (TbfTreeTsm + "
                             "TbfAlgorithmTsm, sources and targets from different particle sets) against the direct sum over the sources.")
