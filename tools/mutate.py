#!/usr/bin/env python3
"""mutate.py <check-id> <file-rel-to-src> <old> <new> [--tier quick] : copy /repo/src to a scratch dir, apply one textual
change, run the check against it (VERIF_REPO), print the verdict line, remove the scratch dir."""
import os, shutil, subprocess, sys, tempfile
pid, rel, old, new = sys.argv[1:5]
extra = sys.argv[5:]
d = tempfile.mkdtemp(prefix="vfmut_")
try:
    shutil.copytree("/repo/src", os.path.join(d, "src"))
    p = os.path.join(d, "src", rel)
    s = open(p).read()
    if old not in s:
        print("MUTANT: pattern not found"); sys.exit(3)
    open(p, "w").write(s.replace(old, new, 1))
    env = dict(os.environ, VERIF_REPO=d)
    r = subprocess.run([sys.executable, os.path.join(os.path.dirname(__file__), "check.py"), pid] + extra, env=env, stdout=subprocess.PIPE, stderr=subprocess.STDOUT, text=True)
    lines = r.stdout.splitlines()
    for l in lines:
        if l.startswith("VIOLATION") or l.startswith("  key=") or l.startswith("INTERNAL") or l.startswith(pid + " tier"):
            print(l[:300])
    print("MUTANT exit=%d" % r.returncode)
finally:
    shutil.rmtree(d, ignore_errors=True)
