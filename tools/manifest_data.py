ENGINES = [
    {"name": "E1/E2 tree driver", "path": "drivers/tree_driver.cpp", "serves_properties": ["C01", "C02", "C06", "C07", "C08", "C16"],
     "kind_free_text": "bounded-exhaustive enumeration of leaf-occupancy patterns x motifs x boxes x block sizes x grouping modes on the real tree and sequential executor, exact integer verification kernel and reference geometry as oracle, crash-safe supervisor"},
    {"name": "E3 schedule explorer", "path": "harness/sched/ + drivers/sched_driver.cpp", "serves_properties": ["C03"],
     "kind_free_text": "mock task runtime (GOMP ABI) + stateless explorer with state cache over (tasks created, tasks executed); real executor re-run on fresh objects per schedule; trace build with own __tsan_* hooks for footprint race check and frame-exact lifetime check"},
    {"name": "index driver", "path": "drivers/index_driver.cpp", "serves_properties": ["C11"], "kind_free_text": "exhaustive per-level enumeration of cells and groups through the public index API vs reference geometry"},
    {"name": "E4 history search", "path": "drivers/hist_driver.cpp", "serves_properties": ["C12", "C13", "C17"], "kind_free_text": "BFS over operation histories replayed on fresh real trees, canonical state keys"},
    {"name": "p2p driver", "path": "drivers/p2p_driver.cpp", "serves_properties": ["C20"], "kind_free_text": "count lattice x layouts vs long double"},
    {"name": "memory driver", "path": "drivers/mem_driver.cpp", "serves_properties": ["C14"], "kind_free_text": "history BFS on TbfMemoryBlock + view trees over byte copies"},
    {"name": "tsm/periodic driver", "path": "drivers/tsmper_driver.cpp", "serves_properties": ["C09", "C10"], "kind_free_text": "enumeration of source/target patterns and periodic configurations with the exact kernel"},
    {"name": "configuration units", "path": "drivers/config_tu.cpp, config_selecter.cpp, config_norhs.cpp, config_hilbert_only.cpp", "serves_properties": ["C19"], "kind_free_text": "one translation unit per documented configuration"},
    {"name": "numeric driver", "path": "drivers/num_driver.cpp", "serves_properties": ["C04", "C05"], "kind_free_text": "numerical kernels vs long double direct sums over an enumerated lattice"},
    {"name": "E6 runner", "path": "tools/check.py", "serves_properties": [], "kind_free_text": "builds drivers from /repo, runs slices on all cores, merges, applies known_findings.json, writes evidence and replays"},
]
NOTES = "See DESIGN.md. All checks rebuild their drivers from /repo/src on every run; scratch output only under /verif/build."

def _tree(text, ref):
    return {"engine": "E1/E2 tree driver", "text": text, "design_ref": ref,
            "note": "trusted: g++ 12, the harness's reference geometry and exact kernel (independent of the library's index code); bounded: tree heights/dimensions/patterns listed in the evidence 'spaces'",
            "technique": "bounded-exhaustive enumeration of input shapes x configurations executed on the real code against a reference model (explicit enumeration, no sampling)"}

CLAIMED = {
    "C01": _tree("Every leaf-occupancy pattern of small trees (all subsets up to 16 leaves in 1-4 D, all pairs/triples of leaves beyond) x every block size x both grouping modes is executed on the real tree and sequential executor with an exactly additive per-source kernel; multiplicity of every ordered pair and every cell's multipole/local count are compared with the definition.", "DESIGN.md section 5 C01"),
    "C02": _tree("Same enumeration; every operator call is checked against the reference geometry inside the kernel and the exact polynomial potential must equal the direct sum, which holds iff every level / child code / offset code / box coordinate was right.", "DESIGN.md section 5 C02"),
    "C06": _tree("Same enumeration plus face/corner/upper-face/ulp motifs and non-dyadic boxes; stored particles compared with the input bit for bit, leaf containment, zero initialisation, byte snapshots around execute().", "DESIGN.md section 5 C06"),
    "C07": _tree("Same enumeration; structural invariants of the group tree compared with the reference ancestor closure through the public accessors.", "DESIGN.md section 5 C07"),
    "C08": _tree("For every enumerated input, every grouping configuration is run and compared bit for bit (interaction multiset digest and all results) with the single-group run.", "DESIGN.md section 5 C08"),
    "C16": _tree("For every enumerated tree, every index from -2 to upper bound + 2 at every level is looked up through all four lookup entry points and compared with the set of existing cells.", "DESIGN.md section 5 C16"),
}

CLAIMED["C03"] = {"engine": "E3 schedule explorer",
    "text": "For small driver trees the complete reachable state space (tasks created, set executed) of the task graph the real OpenMP executor submits is explored, every transition executed on the real code; confluence at every state, bit-identical equality with the sequential executor, per-call predicates; the trace build adds a happens-before race check on the explicit DAG from byte-exact footprints and a frame-exact lifetime check. Mid-size trees under five named extreme schedules and W in {1,2,3,16}.",
    "design_ref": "DESIGN.md section 3 E3, section 5 C03",
    "note": "trusted: mock runtime's dependency semantics, gcc's GOMP lowering, tasks atomic (overlap covered by footprint analysis); Specx/StarPU executors only through API-compatible mocks (real runtimes not installed)",
    "technique": "stateless model checking of the implementation: exhaustive exploration of schedule states (tasks created, tasks executed) under a controlled mock task runtime, with state cache; deviation-bounded beyond"}

CLAIMED["C11"] = {"engine": "index driver",
    "text": "Every cell of every level (bounded heights) of every shipped ordering, and the boundary lattice up to the largest 63-bit level, is pushed through the whole public index API and compared with the geometric definitions by set equality.",
    "design_ref": "DESIGN.md section 5 C11",
    "note": "trusted: harness/vf_ref.hpp (definitions: coordinates >> 1, Chebyshev distance, base-7/base-3 codes); Hilbert geometry is a known finding (D5)",
    "technique": "bounded-exhaustive enumeration of all cells/levels/groups against a reference model, under a watchdog"}

def _hist(text, ref):
    return {"engine": "E4 history search", "text": text, "design_ref": ref,
            "note": "trusted: harness reference model and exact kernel; states are histories replayed on fresh real objects; bounded by depth / tree menu stated in the evidence",
            "technique": "explicit-state breadth-first search over operation histories of the real objects with canonical state hashing (bounded depth, small alphabet)"}

CLAIMED["C12"] = _hist("For each tree and upper level the graph of flag states is searched exhaustively, each transition being a real execute(flags) call; confluence per state, equality with the full run, write sets per flag and the upper-level bound are checked on every transition; all 112 complete partitions replayed.", "DESIGN.md section 5 C12")
CLAIMED["C13"] = _hist("Breadth-first search over histories of move / rebuild / execute on small trees up to depth 4-5, differential oracle against a freshly built tree after every rebuild, exact multiplicity and potential after every execute.", "DESIGN.md section 5 C13")
CLAIMED["C17"] = _hist("Per template instantiation and tree the export is compared with the inserted values at every point of a build/accumulate/move+rebuild history.", "DESIGN.md section 5 C17")
CLAIMED["C20"] = {"engine": "p2p driver", "text": "Every pair of counts of the count lattice x separation scales x layout families x both types through all six entry points against a long double evaluation.", "design_ref": "DESIGN.md section 5 C20",
    "note": "trusted: x87 long double as reference; tolerance 16(n+4)eps of the sum of absolute contributions; scalar path only (Inastemp absent)",
    "technique": "bounded-exhaustive enumeration of argument shapes against an extended-precision reference"}

CLAIMED["C14"] = {"engine": "memory driver", "text": "BFS over histories of memory-block operations for 11 layouts against a vector-per-block model, and, for every group of every enumerated tree, raw-memory views over byte copies compared accessor by accessor plus the sequential executor run on a tree made only of such views.", "design_ref": "DESIGN.md section 5 C14",
    "note": "trusted: reference model (vector per block); over-aligned element types outside the alphabet", "technique": "explicit-state search over operation histories (bounded depth) + bounded-exhaustive enumeration of trees, against a reference model"}
CLAIMED["C10"] = _tree("Every small occupancy pattern x face motifs x dyadic boxes x extra levels x groupings through the documented four-call periodic sequence (single tree and target/source top tree); per ordered pair the multiplicity must equal the number of images in the reported interval and the exact polynomial potential the closed-form image sum.", "DESIGN.md section 5 C10")
CLAIMED["C10"]["engine"] = "tsm/periodic driver"
CLAIMED["C09"] = {"engine": "tsm/periodic driver + E3 schedule explorer", "text": "All pairs of (source pattern, target pattern) of small trees through the sequential target/source executor with the exact kernel, and the OpenMP target/source executor under the schedule explorer exactly as C03.", "design_ref": "DESIGN.md section 5 C09",
    "note": "as C01 and C03", "technique": "bounded-exhaustive enumeration of source/target shapes + stateless model checking of schedules under the mock task runtime"}

CLAIMED["C18"] = {"engine": "tree driver + E3 schedule explorer", "text": "Counter-wrapped exact kernel on the enumerated trees (sequential) and on every explored schedule and worker assignment of the OpenMP executor; merged counters compared with the reference counts implied by the tree, results compared with the unwrapped kernel.", "design_ref": "DESIGN.md section 5 C18",
    "note": "as C01 and C03; P2PTsm of the counter (target/source) is outside the property's stated executors", "technique": "bounded-exhaustive enumeration + stateless model checking of schedules and worker assignments under the mock task runtime"}

CLAIMED["C19"] = {"engine": "configuration units", "text": "The finite cross product of documented template configurations is enumerated as translation units; a unit that fails to compile is a violation, a unit that compiles runs the C01/C06/C13 oracles on a small fixed space.", "design_ref": "DESIGN.md section 5 C19",
    "note": "trusted: g++ 12 as the only front end; Specx/StarPU through mock headers", "technique": "exhaustive enumeration of a finite configuration lattice (one translation unit per configuration) + bounded-exhaustive oracle runs"}

def _num(text, ref):
    return {"engine": "numeric driver", "text": text, "design_ref": ref,
            "note": "trusted: x87 long double reference; bounds are empirical constants (3 x measured worst case on the delivered tree); only the enumerated particle sets/boxes/heights are covered",
            "technique": "exhaustive enumeration of a finite lattice of (order, height, box, particle set, grouping, executor/schedule) on the real kernels against an extended-precision direct sum"}

CLAIMED["C04"] = _num("Rotation kernel over the enumerated lattice of orders, heights 1..6, three boxes, five deterministic particle sets with face/edge/cluster motifs, groupings and executors (OpenMP under named schedules of the mock runtime); error vs a long double direct sum below per-order bounds, shrinking with the order, stable to rounding across groupings/executors, linear in the charges.", "DESIGN.md section 5 C04, section 12")
CLAIMED["C05"] = _num("Uniform kernel over the same lattice (orders 3..8), including delivery of a parent's children in several batches (block size 1) vs one.", "DESIGN.md section 5 C05, section 12")

CLAIMED["C15"] = {"engine": "sanitizer rebuilds of all drivers", "text": "The drivers of the other checks (trees, histories, memory blocks, target/source, periodic, index algebra, schedule explorer for four executors) rebuilt with ASan+UBSan+LSan and assertions on, run over fixed subsets of their spaces; any report, assertion, fatal signal, hang or leak is attributed to the executing case.", "design_ref": "DESIGN.md section 5 C15, section 12",
    "note": "trusted: gcc 12 sanitizer runtimes; tasks atomic; only the enumerated cases are executed", "technique": "bounded-exhaustive enumeration / schedule exploration re-executed under address, leak and undefined-behaviour sanitizers as the oracle"}

_pending = "check not built yet in this round (planned, see DESIGN.md section 11); not claimed until it runs end to end"
NOT_APPLICABLE = {p: _pending for p in []}
