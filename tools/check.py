#!/usr/bin/env python3
"""Runner for the tbfmm property checks (engine E6 of DESIGN.md).

  python3 tools/check.py <property-id> --tier quick|thorough
  python3 tools/check.py <property-id> --replay replays/<id>/<n>.json

Every run wipes build/<id>/, rebuilds the driver(s) from /repo's current working tree, runs them on all cores
(each driver takes a slice index), merges their reports, applies known_findings.json, writes evidence/<id>.json and,
for every violation that is not a listed finding, a replay file and a line  VIOLATION property=<id> replay=<path>.
Exit status: 0 = held on everything explored (KNOWN-FINDING lines may be printed), 1 = violation, 2 = internal error.
"""
import argparse, concurrent.futures, json, os, re, shutil, subprocess, sys, time

ROOT = os.path.dirname(os.path.dirname(os.path.abspath(__file__)))
REPO = os.environ.get("VERIF_REPO", "/repo")
sys.path.insert(0, os.path.join(ROOT, "tools"))
import registry  # noqa: E402

NCPU = os.cpu_count() or 4


def die(msg):
    print("INTERNAL-ERROR: " + msg, flush=True)
    sys.exit(2)


def build(pid, builds):
    bdir = os.path.join(ROOT, "build", pid)
    shutil.rmtree(bdir, ignore_errors=True)
    os.makedirs(bdir)
    def inc_flags(b):
        incs = []
        for i in b.get("includes_first", []):
            incs += ["-I", i if os.path.isabs(i) else os.path.join(ROOT, i)]
        return incs + ["-I", os.path.join(REPO, "src"), "-I", os.path.join(ROOT, "harness")]

    def one(b):
        out = os.path.join(bdir, b["name"])
        cxx = b.get("compiler", "g++")
        log = ""
        if "objects" in b:
            objs = []
            for k, o in enumerate(b["objects"]):
                obj = out + ".%d.o" % k
                src = o["source"] if os.path.isabs(o["source"]) else os.path.join(ROOT, o["source"])
                cmd = [cxx, "-std=c++17"] + o["flags"] + inc_flags(b) + ["-c", src, "-o", obj]
                p = subprocess.run(cmd, stdout=subprocess.PIPE, stderr=subprocess.STDOUT, text=True)
                log += p.stdout
                if p.returncode != 0:
                    return b["name"], (p.returncode, log, cmd)
                objs.append(obj)
            cmd = [cxx] + objs + b.get("link", []) + ["-o", out]
            p = subprocess.run(cmd, stdout=subprocess.PIPE, stderr=subprocess.STDOUT, text=True)
            return b["name"], (p.returncode, log + p.stdout, cmd)
        srcs = [s if os.path.isabs(s) else os.path.join(ROOT, s) for s in b["sources"]]
        cmd = [cxx, "-std=c++17"] + b.get("flags", ["-O1", "-g"]) + inc_flags(b) + srcs + ["-o", out] + b.get("libs", [])
        p = subprocess.run(cmd, stdout=subprocess.PIPE, stderr=subprocess.STDOUT, text=True)
        return b["name"], (p.returncode, p.stdout, cmd)

    results = {}
    with concurrent.futures.ThreadPoolExecutor(max_workers=NCPU) as ex:
        for name, res in ex.map(one, builds):
            results[name] = res
    return bdir, results


def run_one(cmd, timeout, env=None):
    t0 = time.time()
    try:
        p = subprocess.run(cmd, stdout=subprocess.PIPE, stderr=subprocess.STDOUT, text=True, timeout=timeout, env=env)
        return p.returncode, p.stdout[-4000:], time.time() - t0
    except subprocess.TimeoutExpired as e:
        return -999, (e.stdout or "")[-2000:] if isinstance(e.stdout, str) else "", time.time() - t0


def load_findings():
    path = os.path.join(ROOT, "known_findings.json")
    if not os.path.exists(path):
        return []
    return json.load(open(path))["findings"]


def match_finding(findings, pid, key, case):
    for f in findings:
        if f.get("status") != "open" or f["property"] != pid:
            continue
        if not re.fullmatch(f["key"], key):
            continue
        if f.get("case") and not re.search(f["case"], case):
            continue
        return f
    return None


def main():
    ap = argparse.ArgumentParser()
    ap.add_argument("property")
    ap.add_argument("--tier", default=os.environ.get("VERIF_TIER", "quick"))
    ap.add_argument("--replay")
    ap.add_argument("--deadline", type=float, default=None, help="seconds for the exploration phase")
    a = ap.parse_args()
    pid = a.property
    if pid not in registry.CHECKS:
        die("unknown property " + pid)
    chk = registry.CHECKS[pid]
    seed = int(os.environ.get("VERIF_SEED", "0") or 0)
    t0 = time.time()
    os.chdir(ROOT)

    tier = a.tier if a.tier in ("quick", "thorough") else "quick"
    builds = chk["builds"](tier) if callable(chk["builds"]) else chk["builds"]
    bdir, bres = build(pid, builds)
    build_failures = {n: r for n, r in bres.items() if r[0] != 0}
    build_s = time.time() - t0

    # ---- replay of a stored violation -------------------------------------------------------------------
    if a.replay:
        rp = json.load(open(a.replay))
        if rp["driver"] in build_failures:
            print(build_failures[rp["driver"]][1][-3000:])
            die("driver does not build")
        cmd = [os.path.join(bdir, rp["driver"])] + rp["replay_args"]
        rc, out, _ = run_one(cmd, 600)
        print(out)
        print("replay exit status", rc)
        sys.exit(1 if rc != 0 else 0)

    violations = []      # dicts: key, case, detail, driver, replay_args, count
    merged = {"evaluations": 0, "nontrivial": 0, "states": 0, "transitions": 0, "traces": 0,
              "samples": [], "spaces": [], "counters": {}, "exhaustive": True}
    notes = []

    # a driver that does not build is itself a finding of the checks that say "every configuration builds";
    # for the others it is an internal error unless the registry maps it to a violation key
    for n, (rc, out, cmd) in build_failures.items():
        b = [x for x in builds if x["name"] == n][0]
        if "build_failure_key" in b:
            diag = [l for l in out.splitlines() if "error" in l][:3]
            violations.append({"key": b["build_failure_key"], "case": b.get("case", n), "detail": " | ".join(diag)[:600],
                               "driver": n, "replay_args": [], "count": 1, "compile_cmd": " ".join(cmd)})
        else:
            print(out[-6000:])
            die("driver %s does not build" % n)

    deadline = a.deadline if a.deadline is not None else chk.get("deadline", {}).get(tier, 900 if tier == "quick" else 3600)
    runs = chk["runs"](tier, seed) if callable(chk["runs"]) else chk["runs"]
    t_end = time.time() + deadline          # absolute: slices that start late (more slices than cores) do not get a fresh budget
    jobs = []
    for r in runs:
        if r["driver"] in build_failures:
            continue
        ns = r.get("slices", 64)
        for s in range(min(ns, r.get("slice_subset", ns))):
            outp = os.path.join(bdir, "%s.%s.%d.json" % (r["driver"], r.get("tag", "r"), s))
            cmd = [os.path.join(bdir, r["driver"])] + r["args"] + ["--tier", tier, "--slice", str(s), "--nslices", str(ns),
                                                                  "--out", outp, "--deadline-epoch", str(int(t_end)), "--seed", str(seed)]
            jobs.append((r, cmd, outp))
    hard_timeout = deadline + 600
    env_workers = int(os.environ.get("VERIF_JOBS", NCPU))
    with concurrent.futures.ThreadPoolExecutor(max_workers=env_workers) as ex:
        run_env = dict(os.environ)
        run_env.update(chk.get("env", {}))
        if chk.get("dump_graphs"):
            os.makedirs(os.path.join(bdir, "graphs"), exist_ok=True)
            run_env["VF_DUMP_GRAPH_DIR"] = os.path.join(bdir, "graphs")
        futs = {ex.submit(run_one, cmd, hard_timeout, run_env): (r, cmd, outp) for r, cmd, outp in jobs}
        for fu in concurrent.futures.as_completed(futs):
            r, cmd, outp = futs[fu]
            rc, out, dt = fu.result()
            tkey = "max_slice_seconds %s %s" % (r["driver"], r.get("tag", ""))
            merged["counters"][tkey] = max(merged["counters"].get(tkey, 0), int(dt))
            if rc != 0 or not os.path.exists(outp):
                # a crash of the driver is an outcome: drivers that can crash legitimately (sanitizer / fault as oracle)
                # declare crash_key; otherwise it is an internal error
                if "crash_key" in r:
                    violations.append({"key": r["crash_key"], "case": " ".join(cmd[1:]), "detail": ("exit %s: " % rc) + out[-600:],
                                       "driver": r["driver"], "replay_args": cmd[1:], "count": 1})
                    continue
                print(out[-3000:])
                die("driver run failed (exit %s): %s" % (rc, " ".join(cmd)))
            rep0 = json.load(open(outp))
            parts = rep0["merge"] if "merge" in rep0 else [rep0]
            rep = {"samples": [], "spaces": [], "counters": {}, "violations": [], "exhaustive": True}
            for part in parts:
                for k in ("evaluations", "nontrivial", "states", "transitions", "traces"):
                    rep[k] = rep.get(k, 0) + part.get(k, 0)
                rep["exhaustive"] = rep["exhaustive"] and part.get("exhaustive", True)
                rep["samples"] += part.get("samples", [])
                rep["spaces"] += part.get("spaces", [])
                rep["spaces_cut"] = rep.get("spaces_cut", []) + part.get("spaces_cut", [])
                rep["violations"] += part.get("violations", [])
                for k, v in part.get("counters", {}).items():
                    rep["counters"][k] = max(rep["counters"].get(k, 0), v) if k.startswith("max_") else rep["counters"].get(k, 0) + v
            for k in ("evaluations", "nontrivial", "states", "transitions", "traces"):
                merged[k] += rep.get(k, 0)
            merged["exhaustive"] = merged["exhaustive"] and rep.get("exhaustive", True)
            for s_ in rep.get("samples", []):
                if len(merged["samples"]) < 8 and s_ not in merged["samples"]:
                    merged["samples"].append(s_)
            for s_ in rep.get("spaces", []):
                if s_ not in merged["spaces"]:
                    merged["spaces"].append(s_)
            for s_ in rep.get("spaces_cut", []):
                if s_ not in merged.setdefault("spaces_cut", []):
                    merged["spaces_cut"].append(s_)
            for k, v in rep.get("counters", {}).items():
                if k.startswith("max_"):
                    merged["counters"][k] = max(merged["counters"].get(k, 0), v)
                else:
                    merged["counters"][k] = merged["counters"].get(k, 0) + v
            for v in rep.get("violations", []):
                v = dict(v)
                if "only_keys" in r and not re.fullmatch(r["only_keys"], v["key"]):
                    continue
                if "only_keys" in chk and not re.fullmatch(chk["only_keys"], v["key"]):
                    merged["counters"]["violations_of_other_properties_ignored"] = merged["counters"].get("violations_of_other_properties_ignored", 0) + 1
                    continue
                v["driver"] = r["driver"]
                v["replay_args"] = (r["args"] + ["--replay", v["case"]] + r.get("replay_extra", [])) if r.get("replayable", True) else []
                ex_ = [x for x in violations if x["key"] == v["key"]]
                if ex_:
                    ex_[0]["count"] += v.get("count", 1)
                else:
                    violations.append(v)

    # ---- optional post-processing step of the check (e.g. TLC cross-check of the explored state spaces)
    post_cov = {}
    if "post" in chk:
        pv, post_cov = chk["post"](bdir, tier)
        violations += pv

    # ---- classify: replay first, then known findings ------------------------------------------------------
    findings = load_findings()
    new_violations, known = [], []
    for v in violations:
        f = match_finding(findings, pid, v["key"], v["case"])
        if f:
            known.append((f, v))
            continue
        # determinism: a violation must reproduce when its case is replayed alone
        if v["replay_args"] and chk.get("replayable", True) and "compile_cmd" not in v:
            rc, out, _ = run_one([os.path.join(bdir, v["driver"])] + v["replay_args"], 90 if v["key"].startswith("hang") else 600)
            if rc == 0:
                print(out[-2000:])
                die("violation %s did not reproduce on replay of: %s" % (v["key"], v["case"]))
            v["replay_output"] = out[-1500:]
        new_violations.append(v)

    # runs against a mutated copy (VERIF_REPO set by tools/mutate.py / tools/seeded.py) must not overwrite the evidence and
    # replays of the real tree
    scratch_out = (os.path.realpath(REPO) != "/repo")
    rdir = os.path.join(bdir, "replays") if scratch_out else os.path.join(ROOT, "replays", pid)
    if new_violations:
        shutil.rmtree(rdir, ignore_errors=True)
        os.makedirs(rdir, exist_ok=True)
    printed = set()
    for f, v in known:
        if f["id"] not in printed:
            print("KNOWN-FINDING: property=%s %s [%s] (e.g. %s)" % (pid, f["what"], f["id"], v["case"][:200]), flush=True)
            printed.add(f["id"])
    for i, v in enumerate(new_violations):
        path = os.path.join(rdir, "%d.json" % i)
        v2 = dict(v)
        v2["property"] = pid
        v2["how_to_replay"] = "python3 tools/check.py %s --replay %s" % (pid, os.path.relpath(path, ROOT))
        json.dump(v2, open(path, "w"), indent=1)
        print("VIOLATION property=%s replay=%s" % (pid, path))
        print("  key=%s count=%s\n  case=%s\n  detail=%s" % (v["key"], v.get("count"), v["case"][:400], v["detail"][:400]), flush=True)

    # ---- evidence ---------------------------------------------------------------------------------------------
    level = chk["level"]
    cov = {"rule": chk["rule"], "exhaustive": bool(merged["exhaustive"]), "spaces": merged["spaces"],
           "counters": merged["counters"], "samples": merged["samples"] or ["(no case was run)"],
           "known_findings_seen": sorted(printed), "build_s": round(build_s, 1)}
    if level == "model_checking":
        cov.update({"states": max(1, merged["states"]), "transitions": max(1, merged["transitions"]),
                    "traces_validated_against_impl": merged["traces"],
                    "evaluations": merged["evaluations"], "distinct_nontrivial": merged["nontrivial"]})
    else:
        cov.update({"evaluations": merged["evaluations"], "distinct_nontrivial": merged["nontrivial"]})
    # a space is complete when no slice reported that the deadline (or a cap) interrupted it
    cut = merged.get("spaces_cut", [])
    cov["spaces_cut_by_deadline"] = cut
    cov["spaces_completed"] = len([s_ for s_ in merged["spaces"] if s_ not in cut])
    cov.update(post_cov)
    if "extra_coverage" in chk:
        cov.update(chk["extra_coverage"](tier, merged))
    ev = {"property_id": pid, "tier": tier, "seed": seed, "level": level, "coverage": cov,
          "assumptions": chk.get("assumptions", []), "wall_s": round(time.time() - t0, 2),
          "violations": len(new_violations)}
    os.makedirs(os.path.join(ROOT, "evidence"), exist_ok=True)
    json.dump(ev, open(os.path.join(bdir, "evidence_mutant.json") if scratch_out else os.path.join(ROOT, "evidence", pid + ".json"), "w"), indent=1)
    print("%s tier=%s evaluations=%d nontrivial=%d states=%d transitions=%d exhaustive=%s violations=%d known=%d wall=%.1fs" % (
        pid, tier, merged["evaluations"], merged["nontrivial"], merged["states"], merged["transitions"],
        merged["exhaustive"], len(new_violations), len(printed), time.time() - t0), flush=True)
    if merged["evaluations"] == 0 and not violations:
        die("nothing was evaluated")
    sys.exit(1 if new_violations else 0)


if __name__ == "__main__":
    main()
