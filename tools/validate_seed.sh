#!/bin/sh
# validate_seed.sh <id> : confirm a seeded change produced in the scratch worktree /tmp/wt_<id> (deliverables in /tmp/seed_<id>):
#  - the worktree diff is the patch; the demonstration fails with the change and passes without it;
#  - the pinned test suite, built from the patched worktree, passes.
id=$1; wt=/tmp/wt_$id; sd=/tmp/seed_$id
set -e
git -C $wt diff > /tmp/seed_$id/current.diff
if ! diff -q $sd/current.diff $sd/patch.diff >/dev/null; then echo "NOTE: worktree diff differs from patch.diff (using worktree diff)"; cp $sd/current.diff $sd/patch.diff; fi
demo=$(ls $sd/demo*.cpp | head -1)
build_demo() { if grep -q "GOMP_task" $demo; then g++ -std=c++17 -O1 -fopenmp -I$wt/src -c $demo -o $sd/demo.o && g++ $sd/demo.o -o $sd/demo_bin; else g++ -std=c++17 ${DEMO_OPT:--O1} -I$wt/src $demo -o $sd/demo_bin $DEMO_FLAGS; fi; }
build_demo; set +e; timeout 600 $sd/demo_bin > $sd/demo_patched.out 2>&1; rc_patched=$?; set -e
git -C $wt stash -q; build_demo; set +e; timeout 600 $sd/demo_bin > $sd/demo_clean.out 2>&1; rc_clean=$?; set -e; git -C $wt stash pop -q
echo "demo: with change exit=$rc_patched, without exit=$rc_clean"
cmake --build $wt/_build -j 8 > $sd/build_confirm.log 2>&1 || { echo "BUILD FAILED"; tail -5 $sd/build_confirm.log; exit 1; }
ctest --test-dir $wt/_build -j 8 --timeout 900 > $sd/ctest_confirm.log 2>&1 || true
tail -3 $sd/ctest_confirm.log
