#!/usr/bin/env python3
"""Runs the checks against the seeded property-breaking changes kept under /verif/seeded/<id>/.

  python3 tools/seeded.py [<id> ...] [--tier quick]

For every seeded change: copy /repo/src to a scratch directory, apply patch.diff there (never to /repo), run the checks
named in meta.json ("checks") with VERIF_REPO pointing at the copy, record which of them reported a violation, remove the
scratch directory.  Writes seeded/<id>/result.json and prints one line per (change, check)."""
import json, os, shutil, subprocess, sys, tempfile

ROOT = os.path.dirname(os.path.dirname(os.path.abspath(__file__)))


def main():
    args = [a for a in sys.argv[1:] if not a.startswith("--")]
    tier = "quick"
    if "--tier" in sys.argv:
        tier = sys.argv[sys.argv.index("--tier") + 1]
        args = [a for a in args if a != tier]
    sdir = os.path.join(ROOT, "seeded")
    ids = args or sorted(d for d in os.listdir(sdir) if os.path.isdir(os.path.join(sdir, d)))
    for sid in ids:
        d = os.path.join(sdir, sid)
        meta = json.load(open(os.path.join(d, "meta.json")))
        tmp = tempfile.mkdtemp(prefix="vfseed_")
        try:
            shutil.copytree("/repo/src", os.path.join(tmp, "src"))
            p = subprocess.run(["patch", "-p1", "-d", tmp, "-i", os.path.join(d, "patch.diff")], stdout=subprocess.PIPE, stderr=subprocess.STDOUT, text=True)
            if p.returncode != 0:
                print("%s: patch does not apply: %s" % (sid, p.stdout[-300:]))
                continue
            results = {}
            for chk in meta["checks"]:
                env = dict(os.environ, VERIF_REPO=tmp)
                r = subprocess.run([sys.executable, os.path.join(ROOT, "tools", "check.py"), chk, "--tier", tier], env=env, stdout=subprocess.PIPE, stderr=subprocess.STDOUT, text=True)
                keys = [l.strip()[4:].split(" count=")[0] for l in r.stdout.splitlines() if l.startswith("  key=")]
                results[chk] = {"exit": r.returncode, "violation_keys": keys[:12]}
                print("%s  %s  exit=%d  %s" % (sid, chk, r.returncode, ", ".join(keys[:4])), flush=True)
            json.dump({"tier": tier, "results": results}, open(os.path.join(d, "result.json"), "w"), indent=1)
        finally:
            shutil.rmtree(tmp, ignore_errors=True)


if __name__ == "__main__":
    main()
