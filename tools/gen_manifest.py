#!/usr/bin/env python3
"""Writes MANIFEST.json from tools/manifest_data.py (kept in one place so that it stays valid)."""
import json, os, sys
ROOT = os.path.dirname(os.path.dirname(os.path.abspath(__file__)))
sys.path.insert(0, os.path.join(ROOT, "tools"))
import manifest_data as md
import registry
checks = []
for pid in sorted(md.CLAIMED):
    c = md.CLAIMED[pid]
    assert pid in registry.CHECKS, pid
    checks.append({
        "property_id": pid,
        "quick_cmd": "python3 tools/check.py %s --tier quick" % pid,
        "thorough_cmd": "python3 tools/check.py %s --tier thorough" % pid,
        "evidence_file": "/verif/evidence/%s.json" % pid,
        "replay_cmd_template": "python3 tools/check.py %s --replay {path}" % pid,
        "engine": c["engine"],
        "level_claimed": {"category": registry.CHECKS[pid]["level"], "text": c["text"], "design_ref": c["design_ref"]},
        "level_note": c["note"],
        "technique": c["technique"],
    })
props = [json.loads(l)["id"] for l in open(os.path.join(ROOT, "properties.jsonl"))]
na = [{"property_id": p, "reason": md.NOT_APPLICABLE[p]} for p in props if p not in md.CLAIMED]
man = {
    "version": 1,
    "setup_cmd": "mkdir -p build evidence replays",
    "hooks": {"guard": "TBFMM_VERIF", "enable": "no source hooks are needed: the seams are the GOMP ABI, header search order (mock Specx/StarPU headers), compiler instrumentation callbacks and template instantiation; checks compile /repo/src headers directly",
              "baseline_off_cmd": "cmake -G Ninja -B /repo/_build -S /repo && cmake --build /repo/_build && ctest --test-dir /repo/_build -j8 --timeout 900",
              "source_commits": [], "add_only": True},
    "engines": md.ENGINES,
    "checks": checks,
    "notes": md.NOTES,
    "not_applicable": na,
}
json.dump(man, open(os.path.join(ROOT, "MANIFEST.json"), "w"), indent=1)
print("wrote MANIFEST.json with", len(checks), "checks;", len(na), "not claimed")
