#!/usr/bin/env python3
"""Cross-check of the schedule explorer against TLC (models/TaskFlow.tla).

For every <job>.graph.json written by the schedule driver (task graph recorded from the implementation + the set of
abstract states the explorer visited on the real code), TLC enumerates the reachable states of the TaskFlow model with
that graph as constants; the two state sets must be EQUAL and the transition counts must be equal (so every TLC state
was reached by replaying a schedule on the implementation, and the explorer pruned nothing).  TLC also checks TypeOK and
NoUndeclaredConflict (conflicts from the traced footprints).  Prints one JSON summary; exit 1 on any mismatch."""
import json, os, re, shutil, subprocess, sys, glob

ROOT = os.path.dirname(os.path.dirname(os.path.abspath(__file__)))


def tla_set(pairs):
    return "{" + ", ".join("<<%d, %d>>" % (a, b) for a, b in pairs) + "}"


def run(graph_path, workdir):
    g = json.load(open(graph_path))
    name = re.sub(r"[^A-Za-z0-9]", "_", os.path.basename(graph_path).replace(".graph.json", ""))
    d = os.path.join(workdir, name)
    shutil.rmtree(d, ignore_errors=True)
    os.makedirs(d)
    shutil.copy(os.path.join(ROOT, "models", "TaskFlow.tla"), d)
    mod = "MC_" + name
    with open(os.path.join(d, mod + ".tla"), "w") as f:
        f.write("---- MODULE %s ----\nEXTENDS TaskFlow\nconstN == %d\nconstOrdered == %s\nconstConflict == %s\n====\n" % (
            mod, g["N"], tla_set(g["ordered"]), tla_set(g["conflict"])))
    with open(os.path.join(d, mod + ".cfg"), "w") as f:
        f.write("SPECIFICATION Spec\nCONSTANTS\n N <- constN\n Ordered <- constOrdered\n Conflict <- constConflict\nINVARIANTS TypeOK NoUndeclaredConflict\nCHECK_DEADLOCK FALSE\n")
    dump = os.path.join(d, "states")
    cmd = ["tlc", "-workers", "4", "-metadir", os.path.join(d, "meta"), "-dump", dump, mod + ".tla"]
    p = subprocess.run(cmd, cwd=d, stdout=subprocess.PIPE, stderr=subprocess.STDOUT, text=True, timeout=3000)
    out = p.stdout
    res = {"graph": os.path.basename(graph_path), "exec": g["exec"], "job": g["job"], "N": g["N"], "explorer_states": len(g["states"]),
           "explorer_transitions": g["transitions"], "ok": True, "problems": []}
    m = re.search(r"(\d+) states generated, (\d+) distinct states found", out)
    if p.returncode != 0 or not m or "Error:" in out:
        res["ok"] = False
        res["problems"].append("TLC failed or reported an error: " + out[-800:])
        return res
    res["tlc_generated"] = int(m.group(1))
    res["tlc_distinct"] = int(m.group(2))
    # parse the state dump
    tlc_states = set()
    txt = open(dump + ".dump").read()
    for block in re.split(r"\nState \d+:\n", "\n" + txt):
        mc = re.search(r"created = (\d+)", block)
        md = re.search(r"done = \{([^}]*)\}", block)
        if not mc or md is None:
            continue
        mask = 0
        for t in md.group(1).split(","):
            t = t.strip()
            if t:
                mask |= 1 << (int(t) - 1)
        tlc_states.add((int(mc.group(1)), mask))
    exp_states = set((c, m0 | (m1 << 64)) for c, m0, m1 in g["states"])
    res["tlc_states_parsed"] = len(tlc_states)
    if tlc_states != exp_states:
        res["ok"] = False
        res["problems"].append("state sets differ: only in TLC %d, only in explorer %d (e.g. %s / %s)" % (
            len(tlc_states - exp_states), len(exp_states - tlc_states), sorted(tlc_states - exp_states)[:2], sorted(exp_states - tlc_states)[:2]))
    # transitions: TLC's 'states generated' counts the initial state + one per transition taken
    if res["tlc_generated"] - 1 != g["transitions"]:
        res["ok"] = False
        res["problems"].append("transition counts differ: TLC %d, explorer %d" % (res["tlc_generated"] - 1, g["transitions"]))
    shutil.rmtree(d, ignore_errors=True)
    return res


def crosscheck(gdir, workdir, max_states=None, jobs=8):
    import concurrent.futures
    graphs = []
    for g in sorted(glob.glob(os.path.join(gdir, "*.graph.json"))):
        if max_states is not None and len(json.load(open(g))["states"]) > max_states:
            continue
        graphs.append(g)
    with concurrent.futures.ThreadPoolExecutor(max_workers=jobs) as ex:
        return list(ex.map(lambda g: run(g, workdir), graphs))


def main():
    gdir, workdir = sys.argv[1], sys.argv[2]
    results = crosscheck(gdir, workdir)
    ok = all(r["ok"] for r in results)
    print(json.dumps({"ok": ok, "graphs": results}, indent=1))
    sys.exit(0 if ok else 1)


if __name__ == "__main__":
    main()
